"""C15 — no file is overwritten without explicit opt-in."""
from __future__ import annotations

import json
from pathlib import Path

import c16
import vlib

PROP = "C15"
EPS = {0: "ChkIo.encode_chk_to_file", 1: "StormLibWrapper.extract_file", 2: "StarCraftMpqIo.extract_chk_from_mpq",
       3: "StarCraftMpqIo.save_chk_to_mpq", 4: "StarCraftAudioFilesIo.add_audio_files_to_mpq"}


def violation(job, obs):
    if obs.get("harness_error"):
        return None
    opt_in = job["overwrite"] is True
    exists = job["dst"] in ("existing", "same", "empty", "symlink")
    if exists and not opt_in:
        if obs["exc"] != "FileExistsError":
            return f"destination exists and overwriting was not requested, but the call ended with {obs['exc']!r}"
        if obs["dst"] != "unchanged":
            return "the existing destination was modified although the call refused"
    if obs["base_unchanged"] is False:
        return "the source / base file changed"
    if not obs["audio_unchanged"]:
        return "an audio input changed"
    if obs.get("bystanders_disturbed"):
        return f"a file other than the destination was changed or removed: {obs['bystanders_disturbed']}"
    if obs["leftovers"]:
        return f"files other than the destination were left behind: {obs['leftovers'][:3]}"
    if (not exists or opt_in) and obs["exc"] is not None and job["dst"] not in ("same", "star", "nul"):
        return f"a permitted write failed: {obs['exc']}"     # (a name the C library cannot take literally may be refused)
    return None


def run(ck: vlib.Check):
    ck.rule = ("every file-writing entry point x destination {absent, existing file, existing EMPTY file, symlink to a file, same path as the source, "
               "a path through a symlinked directory and '..' whose textual collapse names another existing file, a name with glob characters, "
               "a name holding '*' or NUL in front of which another existing file sits (the C library stops reading there)} x "
               "overwrite flag {default, False, True} (the sound import with one, several and NO sounds to import), real files and the real StormLib, file hashes before/after; "
               "plus, for the refusing cases, every fault point before the guard. Exhaustive over this finite grid. "
               "Distinct = distinct (entry point, destination state, flag).")
    ck.regen(["iodefaults"])
    with vlib.build_lock():
        mb = ck.build(["model/RunC16.vo"])
        drv_ok = False
        if mb:
            drv_ok, out = vlib.build_driver("C16")
            ck.oblige("extraction+driver:C16", drv_ok, out)
        built = ck.build(["proofs/C15_proofs.vo"])
        props_ok = built and ck.check_props("props/C15.v")
    jobs = []
    for ep in EPS:
        for dst in ("absent", "existing", "empty", "symlink", "same", "dotdot", "brackets", "star", "nul", "tilde"):
            if dst == "same" and ep in (0,):
                continue
            for ow in ("default", False, True):
                for ns in ((1,) if ck.tier == "quick" else (0, 1, 3)):
                    # the sound import is also run with NOTHING to import (an empty list is a legitimate request)
                    for na in (((1, 0) if ck.tier == "quick" else (1, 0, 2)) if ep == 4 else (0,)):
                        jobs.append({"ep": ep, "overwrite": ow, "ns": ns, "na": na, "dst": dst, "step": -1, "kind": 0})
    results = c16.run_jobs(jobs)
    ck.exhaustive = True
    mism, first = 0, None
    for j, obs in zip(jobs, results):
        ck.evaluations += 1
        ck.note_case(json.dumps(j, sort_keys=True))
        if obs.get("harness_error"):
            ck.oblige("harness:run", False, obs["harness_error"])
            continue
        bad = violation(j, obs)
        if bad:
            ck.violation(f"{EPS[j['ep']]} (destination {j['dst']}, overwrite={j['overwrite']}): {bad}",
                         {"kind": "overwrite", "job": j, "observed": obs}, True)
            continue
        if drv_ok and j["dst"] != "same":
            m = c16.model_runs(j["ep"], j["overwrite"] is True, j["ns"], j["na"], dst=(j["dst"] in ("existing", "empty", "symlink"))).get(())
            p = c16.project(obs)
            if m != p and j["dst"] not in ("star", "nul"):
                mism += 1
                first = first or (j, p, m)
    if drv_ok:
        ck.corr_count("entry point x destination x flag: real code vs the model's fault-free execution",
                      sum(1 for j in jobs if j["dst"] != "same"), mism)
        if first:
            ck.notes.append(f"first mismatch: job {first[0]} observed {first[1]} model {first[2]}")
    ck.sample({"job": jobs[4], "observed": {k: v for k, v in results[4].items() if k != "log"}})
    ck.sample({"job": jobs[-1], "observed": {k: v for k, v in results[-1].items() if k != "log"}})


def replay(path: str) -> int:
    rp = json.loads(Path(path).read_text())
    print("replaying:", rp.get("what"))
    if rp.get("kind") == "overwrite":
        obs = c16.run_jobs([rp["job"]])[0]
        bad = violation(rp["job"], obs)
        print("still failing: " + bad if bad else "no longer failing", {k: v for k, v in obs.items() if k != "log"})
        return 1 if bad else 0
    print(json.dumps(rp, indent=1)[:3000])
    return 1
