#!/venv/bin/python
"""One save of an authored scenario in a fresh interpreter (PYTHONHASHSEED is set by the caller).
usage: c14_worker.py <scenario seed> <padding>   -> JSON on stdout"""
import dataclasses
import hashlib
import json
import logging
import os
import random
import sys
from pathlib import Path

sys.path.insert(0, str(Path(__file__).resolve().parent))
logging.disable(logging.CRITICAL)
import vlib  # noqa: E402
import scenarios as SC  # noqa: E402
import sections as S  # noqa: E402


def build(seed: int):
    from richchk.editor.richchk.rich_chk_editor import RichChkEditor
    from richchk.editor.richchk.rich_trig_editor import RichTrigEditor
    from richchk.model.richchk.mrgn.rich_location import RichLocation
    from richchk.model.richchk.str.rich_string import RichNullString, RichString
    from richchk.model.richchk.swnm.rich_switch import RichSwitch
    from richchk.model.richchk.trig.actions.center_view_action import CenterViewAction
    from richchk.model.richchk.trig.actions.create_unit_with_properties_action import CreateUnitWithPropertiesAction
    from richchk.model.richchk.trig.actions.move_location_action import MoveLocationAction
    from richchk.model.richchk.trig.actions.set_switch_action import SetSwitchAction
    from richchk.model.richchk.trig.conditions.bring_condition import BringCondition
    from richchk.model.richchk.trig.conditions.comparators.numeric_comparator import NumericComparator
    from richchk.model.richchk.trig.conditions.switch_condition import SwitchCondition
    from richchk.model.richchk.trig.enums.switch_action import SwitchAction
    from richchk.model.richchk.trig.enums.switch_state import SwitchState
    from richchk.model.richchk.trig.player_id import PlayerId
    from richchk.model.richchk.trig.rich_trig_section import RichTrigSection
    from richchk.model.richchk.trig.rich_trigger import RichTrigger
    from richchk.model.richchk.unis.unit_id import UnitId
    from richchk.model.richchk.uprp.rich_cuwp_slot import RichCuwpSlot
    rng = random.Random(seed)
    if seed % 3 == 0:
        base = (vlib.REPO / "test/resources/test-chkjson-scx.chk").read_bytes()
    else:
        base = SC.MapGen(random.Random(seed * 7 + 1), "editor", nloc=255, all_sections=(seed % 2 == 0),
                         shuffle_order=(seed % 4 in (1, 2))).build()
    dup_name = None
    if seed % 2 == 1:
        # two (three) of the map's own switches share one name - legal, and what "resolve a by-name reference to the
        # existing switch of that name" stumbles over
        v0 = SC.SpecView(base)
        named = [k for k in range(256) if v0.swnm and v0.swnm[k] and v0.text(v0.swnm[k])]
        if len(named) >= 3:
            a, b, c = named[0], named[len(named) // 2], named[-1]
            chunks = []
            for n_, p_ in SC.chunks_of(base):
                if n_ == b"SWNM" and len(p_) == 1024:
                    sid = p_[4 * a:4 * a + 4]
                    p_ = p_[:4 * b] + sid + p_[4 * b + 4:]
                    p_ = p_[:4 * c] + sid + p_[4 * c + 4:]
                chunks.append((n_, p_))
            base = b"".join(n_ + len(p_).to_bytes(4, "little") + p_ for n_, p_ in chunks)
            dup_name = v0.text(v0.swnm[a])
    rich = SC.load(base)
    nl, ns, nc = rng.choice([1, 2, 5, 9]), rng.choice([0, 2, 4]), rng.choice([0, 1, 3, 6])
    if dup_name:
        ns = max(ns, 2)
    locs = [RichLocation(10 * i, 20 * i, 10 * i + 5, 20 * i + 7,
                         RichString(f"newloc{i}") if i % 2 else RichNullString()) for i in range(1, nl + 1)]
    if rng.random() < 0.6:
        # one authored location carries the lowest free index of the base map
        from richchk.model.richchk.mrgn.rich_mrgn_section import RichMrgnSection
        used = {l.index for sct in rich.chk_sections if isinstance(sct, RichMrgnSection) for l in sct.locations}
        low = next(i for i in range(1, 256) if i not in used and i != 64)
        k = rng.randrange(len(locs))
        locs[k] = dataclasses.replace(locs[k], _index=low)
    sws = [RichSwitch(_custom_name=RichString(f"newswitch{i}")) for i in range(ns)]
    if sws and rng.random() < 0.5:
        # a new switch that happens to be called like one the map already has (a different switch all the same)
        from richchk.model.richchk.swnm.rich_swnm_section import RichSwnmSection
        named = [s_.custom_name.value for sct in rich.chk_sections if isinstance(sct, RichSwnmSection)
                 for s_ in sct.switches if s_.custom_name.value]
        if named:
            sws[rng.randrange(len(sws))] = RichSwitch(_custom_name=RichString(sorted(named)[rng.randrange(len(named))]))
    if sws and dup_name:
        sws[0] = RichSwitch(_custom_name=RichString(dup_name))     # referred to by the shared name only
    named_by_edit = None
    if rng.random() < 0.6:
        # a switch the map's own triggers use BY NUMBER ONLY (no name in SWNM) is given a name by the edit: an authored switch
        # carrying that number and a name, next to the bare references the loaded triggers hold
        vsw = SC.SpecView(base)
        bare = sorted({e["_switch"][0] for t_ in vsw.triggers() for part in ("conditions", "actions") for e in t_[part]
                       if isinstance(e, dict) and "_switch" in e and not e["_switch"][1]})
        if bare:
            named_by_edit = RichSwitch(_custom_name=RichString("Door open"), _index=bare[rng.randrange(len(bare))])
            sws.append(named_by_edit)
    cws = [RichCuwpSlot(10 + i, 20 + i, 30 + i, _resource_amount=i, _cloaked=bool(i % 2)) for i in range(nc)]
    units = [UnitId.TERRAN_MARINE, UnitId.ZERG_ZERGLING, UnitId.PROTOSS_ZEALOT]
    trigs = []
    for t in range(rng.choice([1, 3, 6])):
        conds, acts = [], []
        conds.append(BringCondition(_group=PlayerId.PLAYER_1, _comparator=NumericComparator.AT_LEAST, _amount=t,
                                    _unit=rng.choice(units), _location=rng.choice(locs)))
        if sws:
            conds.append(SwitchCondition(_switch_state=SwitchState.SET, _switch=sws[0] if (dup_name and t == 0) else rng.choice(sws)))
        for _ in range(rng.choice([1, 3, 8])):
            m = rng.random()
            if m < 0.3 and cws:
                acts.append(CreateUnitWithPropertiesAction(_group=PlayerId.PLAYER_2, _amount=rng.randrange(1, 9),
                                                           _unit=rng.choice(units), _location=rng.choice(locs),
                                                           _properties=rng.choice(cws)))
            elif m < 0.5 and sws:
                acts.append(SetSwitchAction(_switch=rng.choice(sws), _switch_action=SwitchAction.TOGGLE))
            elif m < 0.8:
                acts.append(MoveLocationAction(_source_location=rng.choice(locs), _unit=rng.choice(units),
                                               _group=PlayerId.ALL_PLAYERS, _destination_location=rng.choice(locs)))
            else:
                acts.append(CenterViewAction(_location=rng.choice(locs)))
        if named_by_edit is not None and t == 0:
            acts.append(SetSwitchAction(_switch=named_by_edit, _switch_action=SwitchAction.SET))
        trigs.append(RichTrigger(_conditions=conds, _actions=acts, _players={PlayerId.PLAYER_1, PlayerId.FORCE_2}))
    trig = next(s for s in rich.chk_sections if isinstance(s, RichTrigSection))
    new_trig = RichTrigEditor.add_triggers(trigs, trig)
    return base, RichChkEditor().replace_chk_section(new_trig, rich)


def canonical(base: bytes, out: bytes):
    vb, vo = SC.SpecView(base), SC.SpecView(out)
    canon = {"sections": [(n.hex(), len(p)) for n, p in vo.chunks]}
    old_locs = {i for i, l in enumerate(vb.locs) if any(l.values())}
    canon["mrgn_old"] = [vo.location(i + 1) for i in sorted(old_locs)]
    canon["mrgn_new"] = sorted(json.dumps(vo.location(i + 1)) for i, l in enumerate(vo.locs)
                               if any(l.values()) and i not in old_locs)
    old_cw = {i for i, c in enumerate(vb.cuwps or []) if any(c.values())}
    canon["uprp_old"] = [vo.cuwp(i + 1) for i in sorted(old_cw)]
    canon["uprp_new"] = sorted(json.dumps(vo.cuwp(i + 1)) for i, c in enumerate(vo.cuwps or [])
                               if any(c.values()) and i not in old_cw)
    # a switch whose SWNM entry refers to the empty text has no name: the library (and the editor) treat it as free
    old_sw = {i for i, s_ in enumerate(vb.swnm or []) if s_ and vb.text(s_)}
    canon["swnm_old"] = [vo.switch(i)[1] for i in sorted(old_sw)]
    canon["swnm_new"] = sorted(json.dumps(vo.switch(i)[1]) for i, s_ in enumerate(vo.swnm or []) if s_ and i not in old_sw)
    trig = json.loads(json.dumps(vo.triggers(), default=str))
    # switch references: old switches keep their number, new ones are compared by name only
    def strip_switch(e):
        if isinstance(e, dict):
            for k, v in list(e.items()):
                if isinstance(v, list) and len(v) == 2 and isinstance(v[0], int) and k in ("_switch",):
                    e[k] = v if v[0] in old_sw else ["new", v[1]]
        return e
    for t in trig:
        t["conditions"] = [strip_switch(e) for e in t["conditions"]]
        t["actions"] = [strip_switch(e) for e in t["actions"]]
    canon["triggers"] = trig
    canon["strings"] = [vo.text(i) for i in range(1, int.from_bytes(vo.str_payload[:2], "little") + 1)]
    canon["other"] = [(n.hex(), hashlib.sha1(p).hexdigest()) for n, p in vo.chunks
                      if n not in (b"MRGN", b"UPRP", b"UPUS", b"SWNM", b"TRIG", b"STR ")]
    up = vo.by_name.get(b"UPUS")
    canon["upus_count"] = sum(up[-1]) if up else None
    return canon


def main():
    seed, pad = int(sys.argv[1]), int(sys.argv[2])
    junk = [object() for _ in range(pad * 37)]  # move the allocator: index-less objects hash by id()
    junk2 = [bytearray(pad * 13 + 1) for _ in range(pad % 11)]
    base, rich = build(seed)
    try:
        out = SC.save(rich)
    except Exception as ex:  # noqa
        print(json.dumps({"raised": type(ex).__name__}))
        return
    c = canonical(base, out)
    print(json.dumps({"sha": hashlib.sha1(out).hexdigest(), "len": len(out),
                      "canon_sha": hashlib.sha1(json.dumps(c, sort_keys=True).encode()).hexdigest(),
                      "canon": c if os.environ.get("C14_FULL") else None}))


if __name__ == "__main__":
    main()
