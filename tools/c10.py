"""C10 — unmodelled content passes through untouched and in place."""
from __future__ import annotations

import json
import random
from pathlib import Path

import authoring as A
import richchecks as R
import richcorr as RC
import scenarios as SC
import validator
import vlib

PROP = "C10"


def run(ck: vlib.Check):
    n = 80 if ck.tier == "quick" else 3000
    ck.rule = ("maps written from the format description containing unknown sections (any name incl. non-UTF-8, any "
               "payload, duplicated, empty), recognised sections without a rich model (STRx, VER, ...), and triggers mixing "
               "supported entries with unsupported types (transmission, talking portrait, mute, comment, next scenario, "
               "debug, briefing condition) and out-of-enum type bytes with random field contents, plus a complete sweep of every "
               "condition / action type byte without a model; unedited and after "
               "random edit sequences; every such section must sit at its position byte for byte, every such entry must "
               "be byte-identical and keep its rank among the non-empty entries. Implementation vs extracted model byte "
               "for byte. Distinct = distinct (map, edits).")
    drv_ok = RC.build_rich(ck, ["proofs/C10_proofs.vo"], "props/C10.v")
    rng = ck.rng
    cases = []
    for i in range(n):
        form = "wild" if i % 4 == 0 else "editor"
        base = SC.MapGen(random.Random(rng.randrange(10 ** 9)), form, nloc=255, all_sections=(i % 3 != 0),
                         ntrig=rng.choice([1, 2, 4])).build()
        spec = A.gen_scenario(rng, base) if i % 2 else {"pool": {"locs": [], "cuwps": [], "switches": []}, "ops": []}
        cases.append((f"gen:{form}:{i}", base, spec))
    # complete sweep of the type bytes without a model (conditions and actions), unedited and with one edit
    for k in range(2):
        base = SC.MapGen(random.Random(rng.randrange(10 ** 9)), "editor", nloc=255, all_sections=True, ntrig=1, sweep=True).build()
        spec = {"pool": {"locs": [], "cuwps": [], "switches": []},
                "ops": [] if k == 0 else [["add_triggers", [{"conds": [], "acts": [["rich", 1, [], [False] * 5]], "players": [0]}]]]}
        cases.insert(0, (f"sweep:{k}", base, spec))
    cases = boundary_cases(rng) + cases
    known, _ = vlib.load_known_findings(PROP)
    known_keys = {f["key"]: f["text"] for f in known}
    seen_keys = set()
    impl = []
    kinds = {"unknown_sections": 0, "raw_entries": 0}
    tables = None
    for label, base, spec in cases:
        r = A.run_impl(base, spec)
        impl.append(r)
        ck.evaluations += 1
        ck.note_case(label + str(hash(base)) + json.dumps(spec, sort_keys=True)[:1000])
        kinds["unknown_sections"] += sum(1 for nme, _ in SC.chunks_of(base) if nme not in R.PASSTHROUGH_EXEMPT)
        if r[0] == 0:
            if not spec["ops"] and not validator.validate(base):
                # a structurally valid map (independent validator: every reference resolves) with unmodelled
                # content, not edited at all: it must load and save
                ck.violation(f"{label}: loading and saving the unedited map raised (error class {r[1]}) instead of passing "
                             f"the unmodelled content through", {"kind": "passthrough", "label": label, "base_hex": base.hex(),
                                                                 "spec": spec, "detail": "raised"}, True)
            continue
        keys = set()
        bad = R.c10_oracle(base, bytes(r[1]), keys)
        if not bad and not keys <= set(known_keys):
            bad = "differences of the kind " + ", ".join(sorted(keys - set(known_keys))) + " (not a recorded finding of this property)"
        seen_keys |= keys
        if bad:
            ck.violation(f"{label}: {bad}", {"kind": "passthrough", "label": label, "base_hex": base.hex(), "spec": spec,
                                             "detail": bad}, True)
    ck.extra["unknown_or_unmodelled_sections_exercised"] = kinds["unknown_sections"]
    # recorded findings: replay their witnesses, print KNOWN-FINDING only while they still fail
    for key, (base, spec) in finding_witnesses().items():
        if key in known_keys:
            r = A.run_impl(base, spec)
            keys = set()
            if r[0] == 1 and R.c10_oracle(base, bytes(r[1]), keys) is None and key in keys:
                ck.known(f"key={key} {known_keys[key]}")
    if drv_ok:
        R.correspond(ck, cases, impl, "map with unmodelled content (+ edits) -> saved bytes: implementation vs model")
    ck.sample({"case": cases[0][0], "sections": [nme.hex() for nme, _ in SC.chunks_of(cases[0][1])]})
    ck.sample({"case": cases[-1][0], "ops": [o[0] for o in cases[-1][2]["ops"]]})


NO_EDIT = {"pool": {"locs": [], "cuwps": [], "switches": []}, "ops": []}
ONE_TRIGGER = {"pool": {"locs": [], "cuwps": [], "switches": []},
               "ops": [["add_triggers", [{"conds": [], "acts": [["rich", 1, [], [False] * 5]], "players": [0]}]]]}


def two_trig_sections(seed):
    """a map whose TRIG section (holding every unmodelled condition / action type) occurs twice, the copies apart"""
    base = SC.MapGen(random.Random(seed), "editor", nloc=255, all_sections=True, ntrig=1, sweep=True).build()
    ch = SC.chunks_of(base)
    trig = [c for c in ch if c[0] == b"TRIG"][0][1]
    # the later copy holds the same triggers in reverse order, so the two sections differ position by position
    later = b"".join(reversed([trig[k:k + 2400] for k in range(0, len(trig), 2400)]))
    return b"".join(n + len(p).to_bytes(4, "little") + p for n, p in ch + [(b"XTRA", b"between"), (b"TRIG", later)])


def gap_before_unmodelled():
    """actions [Victory, <empty>, <unsupported type 7 with arbitrary fields>]: the rich layer drops the empty slot"""
    import sections as S
    b = SC.MapGen(random.Random(5), "editor", nloc=255, all_sections=True, ntrig=0).build()
    empty_a = dict.fromkeys(SC.ACTION_FIELDS, 0)
    raw = dict(empty_a, _action_id=7, _time=123456, _first_group=77, _flags=4)
    acts = [dict(empty_a, _action_id=1), dict(empty_a), raw] + [dict(empty_a)] * 61
    trig = {"_conditions": [dict(dict.fromkeys(SC.COND_FIELDS, 0), _condition_id=22)] + [dict.fromkeys(SC.COND_FIELDS, 0)] * 15,
            "_actions": acts,
            "_player_execution": {"_execution_flags": 0, "_player_flags": [1] + [0] * 26, "_current_action_index": 0}}
    payload = S.spec_write(S.SPEC_FULL["TRIG"], {"_triggers": [trig]})
    return b"".join(S.frame(n, payload if n == b"TRIG" else p) for n, p in SC.chunks_of(b))


def sound_entries_with_metadata():
    """unmodelled entries that carry a sound (Transmission, type 7) with a stored length of 0 - and of 5 - saved WITH sound
    metadata for that very path, as the archive save always does: the stored number is theirs, not the library's"""
    import sections as S
    g = SC.MapGen(random.Random(9), "editor", nloc=255, all_sections=True, ntrig=0)
    b = g.build()
    v = SC.SpecView(b)
    w = v.by_name[b"WAV "][-1]
    sids = [int.from_bytes(w[4 * k:4 * k + 4], "little") for k in range(512)]
    sids = [x for x in sids if x]
    if not sids:
        return []
    empty_a = dict.fromkeys(SC.ACTION_FIELDS, 0)
    acts = [dict(empty_a, _action_id=7, _wav_string_id=sids[0], _time=0, _first_group=1, _text_string_id=sids[0]),
            dict(empty_a, _action_id=7, _wav_string_id=sids[-1], _time=5, _first_group=2)] + [dict(empty_a)] * 62
    trig = {"_conditions": [dict(dict.fromkeys(SC.COND_FIELDS, 0), _condition_id=22)] + [dict.fromkeys(SC.COND_FIELDS, 0)] * 15,
            "_actions": acts,
            "_player_execution": {"_execution_flags": 0, "_player_flags": [1] + [0] * 26, "_current_action_index": 0}}
    payload = S.spec_write(S.SPEC_FULL["TRIG"], {"_triggers": [trig]})
    b2 = b"".join(S.frame(n, payload if n == b"TRIG" else p) for n, p in SC.chunks_of(b))
    meta = [[v.text(x), 4000 + 13 * i] for i, x in enumerate(sorted(set(sids)))]
    return [("sound-entry+metadata", b2, dict(NO_EDIT, wav_meta=meta)),
            ("sound-entry+metadata+edit", b2, dict(ONE_TRIGGER, wav_meta=meta))]


def finding_witnesses():
    fx = dict(SC.fixtures())
    return {"upus-recomputed": (fx["test/resources/demon_lore_yatapi_test.chk"], NO_EDIT),
            "interior-gap-compacted": (gap_before_unmodelled(), NO_EDIT),
            "split-trig-sections": (two_trig_sections(41), ONE_TRIGGER)}


def boundary_cases(rng):
    """deterministic families: a recognised section without a rich model that the save rewrites (UPUS), the same
    section name twice with unmodelled entries in the later copy, an empty slot in front of an unmodelled entry"""
    out = [("two-trig:unedited", two_trig_sections(41), NO_EDIT),
           ("two-trig:unedited:b", two_trig_sections(42), NO_EDIT),
           ("gap-before-unmodelled", gap_before_unmodelled(), NO_EDIT)]
    for name, b in SC.fixtures():
        out.append(("fixture:" + name, b, NO_EDIT))
    return out + sound_entries_with_metadata()


def replay(path: str) -> int:
    rp = json.loads(Path(path).read_text())
    print("replaying:", rp.get("what"))
    if rp.get("kind") == "passthrough":
        base = bytes.fromhex(rp["base_hex"])
        r = A.run_impl(base, rp["spec"])
        bad = R.c10_oracle(base, bytes(r[1])) if r[0] == 1 else ("raised" if not rp["spec"]["ops"] and not validator.validate(base) else None)
        print("still failing: " + bad if bad else "no longer failing")
        return 1 if bad else 0
    print(json.dumps(rp, indent=1)[:3000])
    return 1
