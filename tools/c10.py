"""C10 — unmodelled content passes through untouched and in place."""
from __future__ import annotations

import json
import random
from pathlib import Path

import authoring as A
import richchecks as R
import richcorr as RC
import scenarios as SC
import validator
import vlib

PROP = "C10"


def run(ck: vlib.Check):
    n = 80 if ck.tier == "quick" else 3000
    ck.rule = ("maps written from the format description containing unknown sections (any name incl. non-UTF-8, any "
               "payload, duplicated, empty), recognised sections without a rich model (STRx, VER, ...), and triggers mixing "
               "supported entries with unsupported types (transmission, talking portrait, mute, comment, next scenario, "
               "debug, briefing condition) and out-of-enum type bytes with random field contents, plus a complete sweep of every "
               "condition / action type byte without a model; unedited and after "
               "random edit sequences; every such section must sit at its position byte for byte, every such entry must "
               "be byte-identical and keep its rank among the non-empty entries. Implementation vs extracted model byte "
               "for byte. Distinct = distinct (map, edits).")
    drv_ok = RC.build_rich(ck, ["proofs/C10_proofs.vo"], "props/C10.v")
    rng = ck.rng
    cases = []
    for i in range(n):
        form = "wild" if i % 4 == 0 else "editor"
        base = SC.MapGen(random.Random(rng.randrange(10 ** 9)), form, nloc=255, all_sections=(i % 3 != 0),
                         ntrig=rng.choice([1, 2, 4])).build()
        spec = A.gen_scenario(rng, base) if i % 2 else {"pool": {"locs": [], "cuwps": [], "switches": []}, "ops": []}
        cases.append((f"gen:{form}:{i}", base, spec))
    # complete sweep of the type bytes without a model (conditions and actions), unedited and with one edit
    for k in range(2):
        base = SC.MapGen(random.Random(rng.randrange(10 ** 9)), "editor", nloc=255, all_sections=True, ntrig=1, sweep=True).build()
        spec = {"pool": {"locs": [], "cuwps": [], "switches": []},
                "ops": [] if k == 0 else [["add_triggers", [{"conds": [], "acts": [["rich", 1, [], [False] * 5]], "players": [0]}]]]}
        cases.insert(0, (f"sweep:{k}", base, spec))
    impl = []
    kinds = {"unknown_sections": 0, "raw_entries": 0}
    tables = None
    for label, base, spec in cases:
        r = A.run_impl(base, spec)
        impl.append(r)
        ck.evaluations += 1
        ck.note_case(label + str(hash(base)) + json.dumps(spec, sort_keys=True)[:1000])
        kinds["unknown_sections"] += sum(1 for nme, _ in SC.chunks_of(base) if nme not in R.PASSTHROUGH_EXEMPT)
        if r[0] == 0:
            if not spec["ops"] and not validator.validate(base):
                # a structurally valid map (independent validator: every reference resolves) with unmodelled
                # content, not edited at all: it must load and save
                ck.violation(f"{label}: loading and saving the unedited map raised (error class {r[1]}) instead of passing "
                             f"the unmodelled content through", {"kind": "passthrough", "label": label, "base_hex": base.hex(),
                                                                 "spec": spec, "detail": "raised"}, True)
            continue
        bad = R.c10_oracle(base, bytes(r[1]))
        if bad:
            ck.violation(f"{label}: {bad}", {"kind": "passthrough", "label": label, "base_hex": base.hex(), "spec": spec,
                                             "detail": bad}, True)
    ck.extra["unknown_or_unmodelled_sections_exercised"] = kinds["unknown_sections"]
    if drv_ok:
        R.correspond(ck, cases, impl, "map with unmodelled content (+ edits) -> saved bytes: implementation vs model")
    ck.sample({"case": cases[0][0], "sections": [nme.hex() for nme, _ in SC.chunks_of(cases[0][1])]})
    ck.sample({"case": cases[-1][0], "ops": [o[0] for o in cases[-1][2]["ops"]]})


def replay(path: str) -> int:
    rp = json.loads(Path(path).read_text())
    print("replaying:", rp.get("what"))
    if rp.get("kind") == "passthrough":
        base = bytes.fromhex(rp["base_hex"])
        r = A.run_impl(base, rp["spec"])
        bad = R.c10_oracle(base, bytes(r[1])) if r[0] == 1 else ("raised" if not rp["spec"]["ops"] and not validator.validate(base) else None)
        print("still failing: " + bad if bad else "no longer failing")
        return 1 if bad else 0
    print(json.dumps(rp, indent=1)[:3000])
    return 1
