"""C13 — operations never mutate their inputs."""
from __future__ import annotations

import copy
import importlib.util
import json
import random
import re
from pathlib import Path

import vlib

PROP = "C13"
TOOLS = Path(__file__).resolve().parent
SAMPLES = TOOLS / "expected" / "heap_samples"


def check_samples(ck: vlib.Check):
    """translator + Coq checker against what Python really does, on the sample functions"""
    import translate_heap as TH
    lib, ass = TH.translate(None, SAMPLES)
    text, info = TH.render(lib, ass, prefix="samples", entry_points=[])
    d = vlib.BUILD / "c13_samples"
    d.mkdir(parents=True, exist_ok=True)
    (vlib.COQ / "gen" / "GenHeapSamples.v").write_text(text)
    drv = ("From Coq Require Import NArith List Bool.\nFrom RC Require Import model.Heap gen.GenHeapSamples.\n"
           "Import ListNotations.\n"
           "Definition s0 := map (fun fn => mksum (f_pfresh fn) true) samples_table.\n"
           "Definition sm := summarise samples_rounds samples_fuel samples_table s0.\n"
           "Eval vm_compute in failing sm samples_fuel samples_table sm 0.\n")
    (vlib.COQ / "gen" / "RunHeapSamples.v").write_text(drv)
    ok1, out1 = vlib.coqc_capture("gen/GenHeapSamples.v")
    ok2, out2 = vlib.coqc_capture("gen/RunHeapSamples.v") if ok1 else (False, out1)
    m = re.search(r"=\s*\[([^\]]*)\]", out2.replace("\n", " ")) if ok2 else None
    if not m:
        ck.oblige("samples:coq-evaluation", False, out2[-800:])
        return
    rejected = {int(x) for x in m.group(1).replace(" ", "").split(";") if x}
    spec = importlib.util.spec_from_file_location("heap_samples", SAMPLES / "samples.py")
    mod = importlib.util.module_from_spec(spec)
    spec.loader.exec_module(mod)
    names = info["names"]
    unsound, conservative, mutating = [], [], 0
    for i, fid in enumerate(names):
        name = fid.split(":")[1]
        if name not in mod.ARGS:
            continue
        args = mod.ARGS[name]()
        before = copy.deepcopy(args)
        try:
            getattr(mod, name)(*args)
        except Exception:  # noqa
            pass
        mut = args != before
        mutating += mut
        if mut and i not in rejected:
            unsound.append(name)
        if not mut and i in rejected:
            conservative.append(name)
    ck.corr_count("ownership checker (Coq, on translated samples) vs observed mutation in Python: accepted => no argument changed",
                  len(mod.ARGS), len(unsound))
    ck.extra["sample_functions_validation"] = {"functions": len(mod.ARGS), "mutating": mutating, "rejected": len(rejected),
                           "accepted_but_mutating": unsound, "rejected_but_pure(conservative)": conservative}
    if info["uncovered"]:
        ck.oblige("samples:translated", False, json.dumps(info["uncovered"]))


def run(ck: vlib.Check):
    import c13_snap as S
    ck.rule = ("(1) every function of src/richchk outside the file-system layer is translated to the heap language and "
               "checked by the ownership checker inside Coq (exhaustive over functions); (2) translator+checker are "
               "validated on sample functions against observed Python behaviour; (3) every public operation of the "
               "catalogue is run on generated arguments (fixture maps, synthetic maps with all sections, edited maps, "
               "hand-built tables) under deep structural snapshots of every argument, alone and in histories where "
               "inputs and outputs of earlier operations are reused, re-saved and compared. Distinct = distinct "
               "(operation, argument seed) / history seed.")
    st = ck.regen(["heap"])
    info = {}
    if st.get("heap") is None:
        info = json.loads((vlib.BUILD / "heap.json").read_text())
        import translate_heap as TH
        extra_unc = sorted(set(info["uncovered"]) - TH.EXPECTED_UNCOVERED)
        ck.oblige("translator:every-function-covered", not extra_unc,
                  "functions the translator cannot read (assumed pure in the model, so no longer verified): " +
                  "; ".join(f"{k}: {info['uncovered'][k]}" for k in extra_unc))
        ck.extra["model"] = {k: info[k] for k in ("functions", "statements", "fuel", "summary_rounds")}
        ck.extra["model"]["uncovered(assumed, memo caches)"] = sorted(info["uncovered"])
        ck.extra["model"]["operations"] = sorted(info["entries"])
        ck.extra["model"]["reserved_parameters"] = info["reserved_parameters"]
        ck.extra["model"]["assumptions"] = info["assumptions"]
        ck.extra["model"]["rejected_by_python_mirror(diagnostic)"] = info["rejected"]
    with vlib.build_lock():
        built = st.get("heap") is None and ck.build(["proofs/C13_proofs.vo"], timeout=1500)
        if built:
            ck.check_props("props/C13.v")
        ok_model = ck.build(["model/Heap.vo"]) if not built else True
        if ok_model:
            check_samples(ck)

    # ---- deep-snapshot runs of the real operations ---------------------------------------------------
    rounds = 2 if ck.tier == "quick" else 25
    histories = 10 if ck.tier == "quick" else 300
    seen_ops = {}
    for rnd in range(rounds):
        seed = ck.rng.randrange(10 ** 9)
        bad = run_catalogue(seed, seen_ops, ck)
        for name, diff in bad:
            ck.violation(f"{name} changed its argument: {diff}", {"kind": "single", "seed": seed, "op": name, "diff": diff}, True)
    for h in range(histories):
        seed = ck.rng.randrange(10 ** 9)
        bad = run_history(seed, ck)
        if bad:
            ck.violation(f"history seed={seed}: {bad}", {"kind": "history", "seed": seed, "what_changed": bad}, True)
    ck.extra["operations_exercised"] = seen_ops
    ck.sample({"catalogue": sorted(seen_ops)[:8]})


def run_catalogue(seed, seen_ops, ck=None):
    import c13_snap as S
    rng = random.Random(seed)
    bad = []
    for name, call, mk in S.catalogue(rng):
        try:
            args = mk()
        except Exception as ex:  # noqa: argument factory not applicable to this map (e.g. no UNIS section)
            continue
        before = S.snap(args)
        try:
            res = call(args)
            outcome = "ok"
        except Exception as ex:  # noqa: an operation may refuse its input; it still must not change it
            res, outcome = None, "raised " + type(ex).__name__
        after = S.snap(args)
        seen_ops.setdefault(name, {"ok": 0, "raised": 0})["ok" if outcome == "ok" else "raised"] += 1
        if ck is not None:
            ck.evaluations += 1
            ck.note_case(f"{name}:{seed}")
        if before != after:
            bad.append((name, S.first_difference(before, after)))
        elif outcome == "ok" and res is not None:
            # "returns new objects": a second call on separately built, equal arguments must not hand back any
            # mutable container of the first result (a cache keyed by value would)
            try:
                rng_state = rng.getstate()
                args2 = copy.deepcopy(args)
                res2 = call(args2)
                shared = S.shared_containers(res, res2, exclude=S.container_ids(args) | S.container_ids(args2))
                if shared:
                    bad.append((name, f"two independent calls returned results sharing a mutable {shared}"))
            except Exception:  # noqa
                pass
        elif res is not None and any(res is a for a in args if not isinstance(a, (int, str, bytes, type(None)))):
            bad.append((name, "returned its argument object instead of a new object"))
    return bad


def run_history(seed, ck=None):
    """decode -> rich -> random edits -> encode -> bytes, keeping every intermediate value; after every step all
    earlier values must be unchanged, and saving an earlier value again must give the same bytes as before"""
    import authoring as A
    import c13_snap as S
    import scenarios as SC
    from richchk.io.chk.chk_io import ChkIo
    from richchk.io.richchk.richchk_io import RichChkIo
    rng = random.Random(seed)
    fixtures = [b for n, b in SC.fixtures() if "scx" in n]
    base = rng.choice(fixtures + [SC.MapGen(random.Random(rng.randrange(10 ** 6)), "editor", nloc=255, all_sections=True).build()])
    kept = []          # (label, value, snapshot)

    def keep(label, v):
        kept.append((label, v, S.snap(v)))

    def verify(step):
        for label, v, s0 in kept:
            s1 = S.snap(v)
            if s1 != s0:
                return f"after {step}: {label} changed: {S.first_difference(s0, s1)}"
        return None

    d = ChkIo().decode_chk_binary_data(base)
    keep("decoded", d)
    r = RichChkIo().decode_chk(d)
    keep("rich", r)
    bad = verify("RichChkIo.decode_chk")
    if bad:
        return bad
    try:
        first_save = ChkIo().encode_chk_to_bytes(RichChkIo().encode_chk(r))
    except Exception:  # noqa
        first_save = None
    bad = verify("first save")
    if bad:
        return bad
    spec = A.gen_scenario(rng, base)
    b = A.Builder(spec)
    cur = r
    for i, op in enumerate(spec["ops"]):
        if op[0] == "save_reload":
            continue
        try:
            cur = b.apply(cur, op)
        except Exception:  # noqa
            break
        keep(f"after edit {i} ({op[0]})", cur)
        bad = verify(f"edit {i} ({op[0]})")
        if bad:
            return bad
        if ck is not None:
            ck.evaluations += 1
    try:
        d2 = RichChkIo().encode_chk(cur)
        keep("encoded edited map", d2)
        ChkIo().encode_chk_to_bytes(d2)
    except Exception:  # noqa
        pass
    bad = verify("encode of the edited map")
    if bad:
        return bad
    # the original map value is still usable: saving it again gives what it gave before
    if first_save is not None:
        again = ChkIo().encode_chk_to_bytes(RichChkIo().encode_chk(r))
        if again != first_save:
            return "saving the original map value again after the edits gives different bytes"
    # and every intermediate edited value re-encodes without disturbing the others
    for label, v, _ in list(kept)[2:-1][:3]:
        try:
            RichChkIo().encode_chk(v)
        except Exception:  # noqa
            pass
    bad = verify("re-encoding intermediate values")
    if ck is not None:
        ck.evaluations += 1
        ck.note_case(f"history:{seed}")
    return bad


def replay(path: str) -> int:
    rp = json.loads(Path(path).read_text())
    print("replaying:", rp.get("what"))
    if rp.get("kind") == "single":
        bad = [b for b in run_catalogue(rp["seed"], {}) if b[0] == rp["op"]]
        print("still failing: " + str(bad[0]) if bad else "no longer failing")
        return 1 if bad else 0
    if rp.get("kind") == "history":
        bad = run_history(rp["seed"])
        print("still failing: " + bad if bad else "no longer failing")
        return 1 if bad else 0
    print(json.dumps(rp, indent=1)[:3000])
    return 1
