"""C16 — map saving is failure-atomic and never touches the base map (also hosts the shared IO correspondence)."""
from __future__ import annotations

import json
import subprocess
from concurrent.futures import ThreadPoolExecutor
from pathlib import Path

import vlib

PROP = "C16"
WORKER = str(Path(__file__).resolve().parent / "iofault.py")
EXC = {None: 0, "FileExistsError": 8, "FileNotFoundError": 9}
DST = {"absent": 0, "unchanged": 1, "new": 2, "broken": 3, "changed": 2}
PARTIAL_OK = {"copy", "write-chk", "arch-extract"}


def run_jobs(jobs):
    shards = [jobs[i::vlib.NCPU] for i in range(vlib.NCPU)]

    def work(sh):
        if not sh:
            return []
        p = subprocess.run(["/venv/bin/python", WORKER], input=json.dumps(sh), stdout=subprocess.PIPE,
                           stderr=subprocess.DEVNULL, text=True, timeout=3000)
        try:
            return json.loads(p.stdout.strip().splitlines()[-1])
        except Exception:
            return [{"harness_error": "worker died: " + p.stdout[-300:]}] * len(sh)
    with ThreadPoolExecutor(max_workers=vlib.NCPU) as ex:
        res = list(ex.map(work, shards))
    out = [None] * len(jobs)
    for s, r in enumerate(res):
        for i, x in zip(range(s, len(jobs), vlib.NCPU), r):
            out[i] = x
    return out


def model_runs(ep, overwrite, ns, na, base=True, dst=True, audio=True):
    line = f"({ep} {int(bool(overwrite))} {ns} {na} {int(base)} {int(dst)} {int(audio)})"
    t = vlib.parse_tree(vlib.run_model("C16", [line], shards=1)[0])
    d = {}
    for tr, o, bu, dc, tl, au in t:
        d[tuple((a, b) for a, b in tr)] = {"exc": o, "base_unchanged": bool(bu), "dst": dc, "temps_left": bool(tl),
                                           "audio_unchanged": bool(au)}
    return d


def project(obs):
    e = obs["exc"]
    code = EXC.get(e, 10)
    return {"exc": code, "base_unchanged": obs["base_unchanged"], "dst": DST[obs["dst"]],
            "temps_left": bool(obs["leftovers"]), "audio_unchanged": obs["audio_unchanged"]}


def atomic_violation(job, obs):
    """the property itself on one observed run"""
    if obs.get("harness_error"):
        return None
    if obs["base_unchanged"] is False:
        return "the base map changed"
    if not obs["audio_unchanged"]:
        return "an audio input file changed"
    if obs["leftovers"]:
        return f"work files remain: {obs['leftovers'][:3]}"
    if obs.get("bystanders_disturbed"):
        return f"an unrelated file next to the destination was changed or removed: {obs['bystanders_disturbed']}"
    if obs["dst"] == "broken":
        return "the destination is a partial / corrupt file"
    if obs["exc"] is None and obs["dst"] != "new" and job["ep"] in (3, 4):
        return "no error but the destination is not the new map"
    if job.get("real") and obs["exc"] is None:
        return "a real failure of an archive operation (a sound that cannot be read) was not reported: the call returned normally"
    if obs["exc"] and obs["exc"].startswith("other:") and job.get("step", -1) < 0 and not job.get("real"):
        return f"the call failed without an injected fault: {obs['exc']}"
    return None


def configs(tier, eps):
    out = []
    if 3 in eps:
        for ns in (0, 1, 3):
            for dst in ("absent", "existing"):
                out.append({"ep": 3, "overwrite": True, "ns": ns, "na": 0, "dst": dst})
            out.append({"ep": 3, "overwrite": "default", "ns": ns, "na": 0, "dst": "absent"})
        # destination names a careless path computation mishandles: glob metacharacters in the file name, and a path
        # through a symlinked directory followed by ".." (both absent: the fault-free and faulty runs must behave as
        # for any absent destination)
        out.append({"ep": 3, "overwrite": True, "ns": 1, "na": 0, "dst": "hardlink"})
        out.append({"ep": 3, "overwrite": True, "ns": 1, "na": 0, "dst": "hardlink-base"})
        out.append({"ep": 3, "overwrite": True, "ns": 1, "na": 0, "dst": "brackets"})
        out.append({"ep": 3, "overwrite": True, "ns": 1, "na": 0, "dst": "dotdot"})
    if 4 in eps:
        combos = [(0, 1), (1, 2)] if tier == "quick" else [(0, 1), (0, 2), (1, 1), (1, 2), (3, 1)]
        for ns, na in combos:
            for dst in ("absent", "existing"):
                out.append({"ep": 4, "overwrite": True, "ns": ns, "na": na, "dst": dst})
    if 5 in eps:
        out.append({"ep": 5, "overwrite": True, "ns": 1, "na": 0, "dst": "absent"})
    return out


def run(ck: vlib.Check):
    ck.rule = ("save_chk_to_mpq / add_audio_files_to_mpq / read_chk_from_mpq with the real StormLib on the three base "
               "archives (0, 1, 3 sounds), destination absent / existing: EVERY primitive call the model enumerates "
               "(temp-file creation, archive open/add/compact/extract/close, copies, the CHK write, os.replace, the pure "
               "encode/decode/duration steps) made to fail before, after and (copies, extraction, CHK write) part-way, "
               "one fault per run, plus the fault-free run, plus REAL failures of the archive library (an unreadable sound, nothing injected); observed (exception class, base hash, destination state, "
               "leftover files) compared with the model's execution for the same fault, and judged against the "
               "property directly. Exhaustive over fault points per configuration. Distinct = distinct (config, step, kind).")
    ck.regen(["iodefaults"])
    with vlib.build_lock():
        mb = ck.build(["model/RunC16.vo"])
        drv_ok = False
        if mb:
            drv_ok, out = vlib.build_driver(PROP)
            ck.oblige("extraction+driver:C16", drv_ok, out)
        built = ck.build(["proofs/C15_proofs.vo"])
        props_ok = built and ck.check_props("props/C16.v")
    cfgs = configs(ck.tier, (3, 4, 5))
    # discover the step sequence of each configuration with a fault-free run
    base_runs = run_jobs([dict(c, step=-1, kind=0) for c in cfgs])
    jobs = []
    for c, r in zip(cfgs, base_runs):
        if r.get("harness_error"):
            ck.oblige("harness:faultfree", False, r["harness_error"])
            continue
        jobs.append(dict(c, step=-1, kind=0))
        for i, name in enumerate(r["log"]):
            for kind in (0, 1, 2):
                if kind == 2 and name not in PARTIAL_OK:
                    continue
                jobs.append(dict(c, step=i, kind=kind, prim=name))
    results = run_jobs(jobs)
    ck.exhaustive = True
    mism, first = 0, None
    cache = {}
    dist = {}
    for j, obs in zip(jobs, results):
        ck.evaluations += 1
        ck.note_case(json.dumps(j, sort_keys=True))
        if obs.get("harness_error"):
            ck.oblige("harness:run", False, obs["harness_error"])
            continue
        dist[j.get("prim", "none")] = dist.get(j.get("prim", "none"), 0) + 1
        bad = atomic_violation(j, obs)
        if bad:
            ck.violation(f"{['', '', '', 'save_chk_to_mpq', 'add_audio_files_to_mpq', 'read_chk_from_mpq'][j['ep']]}: {bad} "
                         f"(fault {['before', 'after', 'part-way'][j['kind']]} step {j['step']} {j.get('prim')})",
                         {"kind": "fault", "job": j, "observed": obs}, True)
            continue
        if drv_ok:
            key = (j["ep"], j["overwrite"] is True, j["ns"], j["na"], j["dst"])
            if key not in cache:
                cache[key] = model_runs(j["ep"], j["overwrite"] is True, j["ns"], j["na"], dst=(j["dst"] in ("existing", "hardlink", "hardlink-base")))
            tr = () if j["step"] < 0 else ((j["step"], j["kind"]),)
            m = cache[key].get(tr)
            p = project(obs)
            if m is None or m != p:
                mism += 1
                first = first or (j, p, m)
    # second order (implementation only, judged against the property directly): the first fault raised as the error
    # classes file systems really produce (PermissionError for a file open elsewhere, FileNotFoundError), and - where
    # the code went on after a fault instead of stopping - a second fault at every later step
    second = []
    for c, r in zip(cfgs, base_runs):
        if r.get("harness_error") or c["ep"] == 5:
            continue
        for i, name in enumerate(r["log"]):
            if name in ("replace", "copy", "arch-open", "write-chk"):
                for exc in ("perm", "notfound"):
                    second.append(dict(c, step=i, kind=0, prim=name, exc=exc))
    res2 = run_jobs(second)
    follow = []
    for j, obs in zip(second, res2):
        ck.evaluations += 1
        ck.note_case(json.dumps(j, sort_keys=True))
        if obs.get("harness_error"):
            continue
        bad = atomic_violation(j, obs)
        if bad:
            ck.violation(f"{bad} ({j['exc']} error before step {j['step']} {j['prim']})", {"kind": "fault", "job": j, "observed": obs}, True)
        for k in range(j["step"] + 1, obs["steps"]):
            for kind2 in (0, 2):
                follow.append(dict(j, step2=k, kind2=kind2))
    for j, obs in zip(follow, run_jobs(follow)):
        ck.evaluations += 1
        ck.note_case(json.dumps(j, sort_keys=True))
        if obs.get("harness_error"):
            continue
        bad = atomic_violation(j, obs)
        if bad:
            ck.violation(f"{bad} ({j['exc']} error before step {j['step']} {j['prim']}, then a second fault at step {j['step2']})",
                         {"kind": "fault", "job": j, "observed": obs}, True)
    # real failures of the archive library, nothing injected: a "sound" that cannot be read (a directory of that name)
    real = [dict(c, step=-1, kind=0, real="unreadable-sound") for c in cfgs if c["ep"] == 4]
    for j, obs in zip(real, run_jobs(real)):
        ck.evaluations += 1
        ck.note_case(json.dumps(j, sort_keys=True))
        if obs.get("harness_error"):
            ck.oblige("harness:run", False, obs["harness_error"])
            continue
        bad = atomic_violation(j, obs)
        if bad:
            ck.violation(f"add_audio_files_to_mpq with a sound the archive library cannot read: {bad}",
                         {"kind": "fault", "job": j, "observed": obs}, True)
    ck.extra["real_failure_runs"] = len(real)
    ck.extra["second_order_runs"] = {"first_fault_as_os_specific_error": len(second), "two_faults": len(follow)}
    if drv_ok:
        ck.corr_count("fault-injected runs: real code + real StormLib vs the model's execution for the same fault",
                      len(jobs), mism)
        if first:
            ck.notes.append(f"first mismatch: job {first[0]} observed {first[1]} model {first[2]}")
    ck.extra["faults_per_primitive"] = dist
    ck.sample({"job": jobs[1], "observed": {k: v for k, v in results[1].items() if k != "log"}})
    ck.sample({"job": jobs[-1], "observed": {k: v for k, v in results[-1].items() if k != "log"}})


def replay(path: str) -> int:
    rp = json.loads(Path(path).read_text())
    print("replaying:", rp.get("what"))
    if rp.get("kind") == "fault":
        obs = run_jobs([rp["job"]])[0]
        bad = atomic_violation(rp["job"], obs)
        print("still failing: " + bad if bad else "no longer failing", {k: v for k, v in obs.items() if k != "log"})
        return 1 if bad else 0
    print(json.dumps(rp, indent=1)[:3000])
    return 1
