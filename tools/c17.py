"""C17 — map archives round-trip: CHK exact, other members preserved."""
from __future__ import annotations

import json
import subprocess
from concurrent.futures import ThreadPoolExecutor
from pathlib import Path

import vlib

PROP = "C17"
WORKER = str(Path(__file__).resolve().parent / "c17_worker.py")


def run_jobs(jobs):
    n = min(vlib.NCPU, max(1, len(jobs)))
    shards = [jobs[i::n] for i in range(n)]

    def work(sh):
        p = subprocess.run(["/venv/bin/python", WORKER], input=json.dumps(sh), stdout=subprocess.PIPE,
                           stderr=subprocess.DEVNULL, text=True, timeout=3000)
        try:
            return json.loads(p.stdout.strip().splitlines()[-1])
        except Exception:
            return [{"harness_error": "worker died " + p.stdout[-300:]}] * len(sh)
    with ThreadPoolExecutor(max_workers=n) as ex:
        res = list(ex.map(work, shards))
    out = [None] * len(jobs)
    for s, r in enumerate(res):
        for i, x in zip(range(s, len(jobs), n), r):
            out[i] = x
    return out


def run(ck: vlib.Check):
    ck.rule = ("the real bundled StormLib on every base archive of the repository (0, 1 and 3 embedded sounds) x maps "
               "{unedited, CHK bigger (1..40 extra triggers with long strings), CHK smaller (half the triggers)}: member "
               "listing and per-member hashes of base vs saved archive, stored scenario.chk vs the encoder's bytes, map "
               "read back re-encodes identically; audio import of every non-empty subset order of {wav, ogg}: stored "
               "under staredit\\wav\\<basename> with identical bytes, listed in the WAV table, and a PlayWav without "
               "duration saved afterwards carries the file's true duration (computed independently with `wave` / "
               "mutagen). Distinct = distinct job.")
    with vlib.build_lock():
        built = ck.build(["model/Archive.vo"])
        props_ok = built and ck.check_props("props/C17.v")
        sb = ck.build(["model/RunC05S.vo"])
        if sb:
            ok, out = vlib.build_driver("C05S")
            ck.oblige("extraction+driver:C05S (spec tables for the reader)", ok, out)
    seeds = (1, 2) if ck.tier == "quick" else range(1, 25)
    jobs = []
    for b in ("scm0", "scx1", "scx3"):
        jobs.append({"kind": "save", "base": b, "edit": "unedited"})
        jobs.append({"kind": "save", "base": b, "edit": "smaller"})
        for s in seeds:
            jobs.append({"kind": "save", "base": b, "edit": "bigger", "seed": s})
        for files in (["wav"], ["ogg"], ["wav", "ogg"], ["ogg", "wav"]):
            jobs.append({"kind": "audio", "base": b, "files": files})
    # file names that mean something to one path convention or another (a drive-like "x:", dots, blanks, a tilde, brackets):
    # on this platform they are plain names, and the canonical member path is staredit\\wav\\<that name>
    for nm in ("1:30.wav", "a:b.wav", "x.y.z.wav", "~tilde.wav", "[b]racket.wav", "two  blanks.wav", "nul.wav"):
        jobs.append({"kind": "audio", "base": "scx1", "files": ["wav"], "names": [nm]})
    # Ogg sounds of lengths at which samples / rate * 1000 is not exact in floating point (89523 samples at 44100 Hz = 2030 ms)
    for n in (88641, 89523, 177282, 100000, 44100, 1):
        jobs.append({"kind": "audio", "base": "scx1", "files": ["ogg"], "ogg_granule": n})
        jobs.append({"kind": "audio", "base": "scm0", "files": ["wav", "ogg"], "ogg_granule": n})
    # sounds with one file name in different archive directories (and different lengths), in both listing orders
    for b in ("scx1", "scm0"):
        jobs.append({"kind": "same-basename", "base": b,
                     "members": [["music\\theme.wav", 2500], ["staredit\\wav\\theme.wav", 1001]]})
        # lengths at which frames / rate * 1000 is not exact in floating point (8008 frames at 8000 Hz = 1001 ms)
        jobs.append({"kind": "same-basename", "base": b,
                     "members": [["staredit\\wav\\a1001.wav", 1001], ["staredit\\wav\\a1003.wav", 1003], ["staredit\\wav\\a37.wav", 37]]})
        jobs.append({"kind": "same-basename", "base": b,
                     "members": [["staredit\\wav\\theme.wav", 700], ["a\\theme.wav", 1300], ["z\\theme.wav", 300]]})
    for b in ("scx1", "scx3"):
        for f in ("wav", "ogg"):
            jobs.append({"kind": "reimport", "base": b, "file": f})
    results = run_jobs(jobs)
    for j, r in zip(jobs, results):
        ck.evaluations += 1
        ck.note_case(json.dumps(j, sort_keys=True))
        if r.get("harness_error"):
            ck.oblige("harness:run", False, r["harness_error"])
            continue
        for p in r["problems"]:
            ck.violation(f"{j}: {p}", {"kind": "archive", "job": j, "problem": p}, True)
    ck.corr_count("StormLibSpec exercised on the real library (member preservation, replace, compaction)", len(jobs),
                  sum(1 for r in results if r.get("problems")))
    ck.sample({"job": jobs[0], "result": results[0]})
    ck.sample({"job": jobs[-1], "result": results[-1]})


def replay(path: str) -> int:
    rp = json.loads(Path(path).read_text())
    print("replaying:", rp.get("what"))
    if rp.get("kind") == "archive":
        r = run_jobs([rp["job"]])[0]
        print("still failing" if r.get("problems") else "no longer failing", r)
        return 1 if r.get("problems") else 0
    print(json.dumps(rp, indent=1)[:3000])
    return 1
