"""Translate every function of src/richchk (outside the MPQ / file-system layer and the logger) into the
heap language of coq/model/Heap.v, for C13 ("operations never mutate their inputs").

Fail-closed: a function using a construct this reader does not know is listed as UNCOVERED; its
callers then see an *assumed* summary (reads its arguments, returns an unknown value) and the
evidence lists it.  Everything that is assumed rather than read from the source is in the tables at
the top of this file; they are part of the trusted base and are written into build/heap.json.

Abstraction (see Heap.v): values are atoms or references to mutable cells; a cell holds values.
  x = <literal scalar / arithmetic / str method / len(..) ...>      SAtom x   (or a fresh cell: harmless)
  x = [..] / {..} / Class(..) / comprehension / list(y) / y.copy()   SNew / SCopy (+ loops filling it)
  x = copy.deepcopy(y)                                               SDeep
  x = y                                                              SMove
  x = y.attr / y[k] / for x in y / y.get(k) ...                      SRead
  x.append(v) / x[k] = v / x.attr = v / x.pop() / del x[k] ...       SWrite x [v]
  f(a, b), o.m(a)                                                    SCall to every library function the
                                                                     call can denote (by name, arity and,
                                                                     for self/cls/Class receivers, class
                                                                     hierarchy), as an SIf chain
  if / while / for / try / break / continue / return / raise         SIf / SLoop / STry / SRet / SRaise
Names that are not local (classes, module constants, registries) are read from the implicit last
parameter G, "the globals": an object that existed before the call, so writing to it is rejected.
"""
from __future__ import annotations

import ast
import json
import sys
from pathlib import Path

# ---- assumptions (trusted base) ---------------------------------------------------------------------
EXCLUDED_DIRS = ("mpq/", "io/mpq/")           # file-system / StormLib layer: C15-C17, not C13
EXCLUDED_FILES = ("util/logger.py", "util/fileutils.py", "util/subpackages_importer.py")   # the last: import machinery, C18
EXCLUDED_FUNCS = {"register", "__init_subclass__"}                 # transcoder registration decorators: run at import time, never by an operation
# module-level memo tables: a cache keyed by class / section name, filled on first use, never reachable
# from an argument or a result.  Reading one yields a cell the call may write (the deep snapshots of the
# correspondence check exclude exactly these).
MEMO_ATTRS = {"_ENUM_ID_MAP"}
MEMO_FUNCS = {"_sections_by_name"}            # functools.cached_property memo on DecodedChk / RichChk
LOGGER_NAMES = {"log", "_log", "_LOG", "LOG", "logger", "_logger", "logging"}
ATOM_ANNOTATIONS = {"int", "str", "bytes", "bool", "float", "Decimal", "None"}
# decorators whose effect on a function is known (anything else - a cache, a wrapper - is not read: fail closed)
KNOWN_DECORATORS = {"property", "classmethod", "staticmethod", "abstractmethod", "abc.abstractmethod",
                    "functools.cached_property", "cached_property", "overload", "typing.overload"}

BUILTIN_ATOM = {"len", "isinstance", "issubclass", "int", "str", "bool", "float", "bytes", "repr", "hash", "id", "abs",
                "sum", "round", "ord", "chr", "divmod", "pow", "hex", "bin", "any", "all", "callable", "hasattr",
                "format", "print", "type", "Decimal", "object", "property", "staticmethod"}
BUILTIN_NEW = {"BytesIO", "open", "bytearray", "StringIO"}                   # a new mutable object
BUILTIN_ELEMENT = {"min", "max", "next", "iter", "getattr", "cast"}          # returns (part of) an argument
BUILTIN_COPY = {"list", "set", "dict", "tuple", "frozenset", "sorted", "reversed", "enumerate", "zip", "range",
                "filter", "chain", "defaultdict", "OrderedDict", "deque"}     # new container over the arguments' elements
EXCEPTIONS = {"ValueError", "KeyError", "IndexError", "NotImplementedError", "RuntimeError", "Exception", "TypeError",
              "AssertionError", "FileNotFoundError", "FileExistsError", "OSError", "StopIteration", "AttributeError"}
MODULE_FUNCS = {  # module.attr(...) -> behaviour
    ("struct", "pack"): "atom", ("struct", "unpack"): "new", ("struct", "calcsize"): "atom", ("struct", "unpack_from"): "new",
    ("copy", "deepcopy"): "deep", ("copy", "copy"): "copy",
    ("dataclasses", "fields"): "new", ("dataclasses", "field"): "atom", ("dataclasses", "asdict"): "deep",
    ("dataclasses", "is_dataclass"): "atom",
    ("io", "BytesIO"): "new", ("math", "*"): "atom", ("os", "*"): "atom", ("uuid", "*"): "atom", ("decimal", "*"): "atom",
    ("itertools", "chain"): "copyall", ("functools", "reduce"): None, ("re", "*"): "atom", ("json", "dumps"): "atom",
    ("int", "from_bytes"): "atom", ("bytes", "fromhex"): "atom", ("str", "join"): "atom", ("dict", "fromkeys"): "copyall",
    ("typing", "cast"): "element", ("difflib", "SequenceMatcher"): "new", ("dataclass_wizard", "fromdict"): "new",
}
MUTATORS = {"append", "add", "extend", "update", "insert", "pop", "remove", "reverse", "sort", "clear", "discard",
            "setdefault", "popitem", "appendleft", "popleft", "write", "seek", "read", "readline", "truncate",
            "intersection_update", "difference_update", "symmetric_difference_update", "__setitem__", "__delitem__",
            "__setattr__"}
MUTATOR_RETURNS_ELEMENT = {"pop", "popitem", "setdefault", "popleft"}
MUTATOR_TAKES_COLLECTION = {"extend", "update", "intersection_update", "difference_update", "symmetric_difference_update"}
PURE_ELEMENT = {"get", "keys", "values", "items", "__getitem__"}
PURE_COPY = {"copy", "union", "intersection", "difference", "symmetric_difference"}
PURE_ATOM = {"index", "count", "tell", "getvalue", "join", "format", "encode", "decode", "strip", "lstrip", "rstrip", "split",
             "rsplit", "splitlines", "startswith", "endswith", "lower", "upper", "title", "replace", "to_bytes", "hex",
             "bit_length", "is_integer", "quantize", "zfill", "ljust", "rjust", "find", "rfind", "partition", "isdigit",
             "isalpha", "issubset", "issuperset", "isdisjoint", "as_integer_ratio", "capitalize", "casefold", "isspace",
             "rstrip", "removeprefix", "removesuffix", "center", "expandtabs", "fromhex", "from_bytes", "with_traceback",
             "conjugate", "normalize", "to_integral_value", "name", "value", "ratio", "close", "flush"}
ENUM_BASES = {"Enum", "IntEnum", "Flag", "IntFlag", "StrEnum", "RichChkEnum"}


class Unsupported(Exception):
    pass


class Fn:
    def __init__(self, fid, module, cls, node, kind):
        self.fid, self.module, self.cls, self.node, self.kind = fid, module, cls, node, kind
        self.name = node.name
        a = node.args
        self.pos = [x.arg for x in a.posonlyargs + a.args]
        self.kwonly = [x.arg for x in a.kwonlyargs]
        self.vararg = a.vararg.arg if a.vararg else None
        self.kwarg = a.kwarg.arg if a.kwarg else None
        self.ndefaults = len(a.defaults)
        self.annot = {x.arg: (ast.unparse(x.annotation) if x.annotation else None)
                      for x in a.posonlyargs + a.args + a.kwonlyargs}
        self.params = self.pos + self.kwonly + ([self.vararg] if self.vararg else []) + ([self.kwarg] if self.kwarg else [])
        self.index = None
        self.body = None            # translated statements
        self.nvars = None
        self.pfresh = None
        self.uncovered = None       # reason string


def decorator_names(node):
    out = []
    for d in node.decorator_list:
        out.append(ast.unparse(d))
    return out


class Library:
    def __init__(self, src: Path, root: Path = None):
        self.src = src
        self.fns: list[Fn] = []
        self.by_name: dict[str, list[Fn]] = {}
        self.classes: dict[str, list] = {}           # simple name -> [(module, ClassDef)]
        self.class_bases: dict[str, set[str]] = {}
        self.class_fields: set[str] = set()
        self.properties: dict[str, list[Fn]] = {}
        self.skipped: list[str] = []
        root = root if root is not None else src / "richchk"
        for path in sorted(root.rglob("*.py")):
            rel = path.relative_to(root).as_posix()
            if rel.startswith(EXCLUDED_DIRS) or rel in EXCLUDED_FILES:
                continue
            tree = ast.parse(path.read_text())
            self._collect(rel, tree.body, None)
        for i, f in enumerate(self.fns):
            f.index = i

    def _collect(self, module, body, cls):
        for node in body:
            if isinstance(node, ast.ClassDef):
                self.classes.setdefault(node.name, []).append((module, node))
                bases = set()
                for b in node.bases:
                    n = b
                    while isinstance(n, ast.Subscript):
                        n = n.value
                    bases.add(n.attr if isinstance(n, ast.Attribute) else getattr(n, "id", "?"))
                self.class_bases.setdefault(node.name, set()).update(bases)
                for st in node.body:
                    if isinstance(st, ast.AnnAssign) and isinstance(st.target, ast.Name):
                        self.class_fields.add(st.target.id)
                    if isinstance(st, ast.Assign):
                        for t in st.targets:
                            if isinstance(t, ast.Name):
                                self.class_fields.add(t.id)
                self._collect(module, node.body, node.name)
            elif isinstance(node, (ast.FunctionDef, ast.AsyncFunctionDef)):
                decs = decorator_names(node)
                if node.name in EXCLUDED_FUNCS:
                    self.skipped.append(f"{module}:{cls}.{node.name}")
                    continue
                kind = "function" if cls is None else "method"
                if any(d.endswith("classmethod") for d in decs):
                    kind = "classmethod"
                elif any(d.endswith("staticmethod") for d in decs):
                    kind = "staticmethod"
                elif any(d.endswith("property") or d.endswith("cached_property") for d in decs):
                    kind = "property"
                elif any(d.endswith(".setter") for d in decs):
                    kind = "setter"
                fid = f"{module[:-3].replace('/', '.')}:{cls + '.' if cls else ''}{node.name}"
                f = Fn(fid, module, cls, node, kind)
                f.bad_decorator = next((d for d in decs if d not in KNOWN_DECORATORS and not d.endswith(".setter")), None)
                self.fns.append(f)
                self.by_name.setdefault(node.name, []).append(f)
                if kind == "property":
                    self.properties.setdefault(node.name, []).append(f)
            elif isinstance(node, (ast.If, ast.Try)):
                # TYPE_CHECKING blocks and the like: look inside for definitions
                for sub in ast.iter_child_nodes(node):
                    if isinstance(sub, list):
                        pass
                self._collect(module, [n for n in ast.walk(node) if isinstance(n, (ast.ClassDef,)) and n is not node][:0], cls)

    # class hierarchy by simple name
    def ancestors(self, c, seen=None):
        seen = seen if seen is not None else set()
        for b in self.class_bases.get(c, ()):
            if b not in seen:
                seen.add(b)
                self.ancestors(b, seen)
        return seen

    def related(self, c):
        """c, its ancestors and its descendants"""
        rel = {c} | self.ancestors(c)
        for d in self.class_bases:
            if c in self.ancestors(d):
                rel.add(d)
        return rel

    def is_enum(self, c):
        return bool(({c} | self.ancestors(c)) & ENUM_BASES)

    def methods(self, name, classes=None):
        out = [f for f in self.by_name.get(name, []) if f.cls is not None and f.kind != "property"]
        if classes is not None:
            out = [f for f in out if f.cls in classes]
        return out


class Tr:
    """translate one function body"""

    def __init__(self, lib: Library, fn: Fn):
        self.lib, self.fn = lib, fn
        self.vars: dict[str, int] = {}
        for p in fn.params:
            self.vars[p] = len(self.vars)
        self.G = len(self.vars)
        self.vars["<globals>"] = self.G
        self.nparams = self.G + 1
        self.ntemps = 0
        self.locals = set(fn.params) | self._assigned(fn.node)
        self.assumptions: set[str] = set()

    @staticmethod
    def _assigned(node):
        names = set()
        for n in ast.walk(node):
            if isinstance(n, ast.Name) and isinstance(n.ctx, (ast.Store, ast.Del)):
                names.add(n.id)
            elif isinstance(n, ast.ExceptHandler) and n.name:
                names.add(n.name)
            elif isinstance(n, (ast.Global, ast.Nonlocal)):
                raise Unsupported("global/nonlocal")
        # names bound only inside comprehensions / lambdas are still locals of this translation
        for n in ast.walk(node):
            if isinstance(n, ast.Lambda):
                for a in n.args.args:
                    names.add(a.arg)
        return names

    def var(self, name):
        if name not in self.vars:
            self.vars[name] = len(self.vars)
        return self.vars[name]

    def tmp(self):
        self.ntemps += 1
        return self.var(f"<t{self.ntemps}>")

    # ---- helpers emitting into a block (a python list) ------------------------------------------------
    def atom(self, out):
        t = self.tmp()
        out.append(("SAtom", t))
        return t

    def fresh_from(self, out, operands):
        """a new container holding elements of the operands"""
        t = self.tmp()
        out.append(("SNew", t, []))
        for o in operands:
            e = self.tmp()
            out.append(("SLoop", [("SRead", e, o), ("SWrite", t, [e])]))
        return t

    def may_raise(self, out):
        out.append(("SIf", [("SRaise",)], []))

    def call_chain(self, out, cands, args_for, result=None):
        """x = one of the candidate library functions applied (oracle picks); args_for(fn) -> list of vars"""
        t = result if result is not None else self.tmp()
        if not cands:
            raise Unsupported("no candidate")
        chain = None
        for f in reversed(cands):
            blk = []
            a = args_for(f, blk)
            blk.append(("SCall", t, f.index, a))
            chain = blk if chain is None else [("SIf", blk, chain)]
        out.extend(chain)
        self.may_raise(out)
        return t

    def bind_args(self, f: Fn, recv, pos, kws, out, starkw=None):
        """argument vars for callee f in its parameter order (+ G).  recv: var or None or 'atom'"""
        params = list(f.pos)
        vals: dict[str, int] = {}
        implicit = 0
        if f.cls is not None and f.kind in ("method", "property", "setter"):
            if recv is not None:
                vals[params[0]] = recv if recv != "atom" else self.atom(out)
                implicit = 1
        elif f.kind == "classmethod":
            vals[params[0]] = self.atom(out)
            implicit = 1
        rest = params[implicit:]
        if len(pos) > len(rest) and not f.vararg:
            raise Unsupported("arity")
        for p, v in zip(rest, pos):
            vals[p] = v
        extra = pos[len(rest):]
        for k, v in kws.items():
            if k in f.pos or k in f.kwonly:
                vals[k] = v
            elif f.kwarg:
                extra.append(v)
            else:
                raise Unsupported("arity")
        out_args = []
        for p in f.params:
            if p in vals:
                out_args.append(vals[p])
            elif p == f.vararg or p == f.kwarg:
                t = self.tmp()
                out.append(("SNew", t, list(extra) + ([starkw] if starkw is not None else [])))
                if starkw is not None:
                    e = self.tmp()
                    out.append(("SLoop", [("SRead", e, starkw), ("SWrite", t, [e])]))
                out_args.append(t)
            else:
                out_args.append(self.atom(out))      # default value
        out_args.append(self.G)
        return out_args

    def compatible(self, f: Fn, npos, kws, has_recv):
        implicit = 1 if (f.cls is not None and f.kind in ("method", "property", "setter", "classmethod")) else 0
        if f.kind in ("method", "property", "setter") and not has_recv:
            implicit = 0
        maxpos = len(f.pos) - implicit
        required = len(f.pos) - implicit - f.ndefaults
        if npos > maxpos and not f.vararg:
            return False
        for k in kws:
            if k not in f.pos and k not in f.kwonly and not f.kwarg:
                return False
        given = npos + sum(1 for k in kws if k in f.pos)
        return given >= required

    def dunder(self, out, names, args):
        cands = [f for n in names for f in self.lib.methods(n)]
        cands = [f for f in cands if len(f.pos) == len(args)]
        if cands:
            self.call_chain(out, cands, lambda f, blk: list(args) + [self.G])

    # ---- expressions ----------------------------------------------------------------------------------
    def expr(self, e, out) -> int:
        m = getattr(self, "e_" + type(e).__name__, None)
        if m is None:
            raise Unsupported("expression " + type(e).__name__)
        return m(e, out)

    def e_Constant(self, e, out):
        return self.atom(out)

    def e_JoinedStr(self, e, out):
        for v in e.values:
            if isinstance(v, ast.FormattedValue):
                x = self.expr(v.value, out)
                self.dunder(out, ["__str__", "__repr__", "__format__"], [x])
        return self.atom(out)

    def e_Name(self, e, out):
        if e.id in self.locals:
            return self.var(e.id)
        if e.id in ("True", "False", "None"):
            return self.atom(out)
        t = self.tmp()
        out.append(("SRead", t, self.G))
        return t

    def e_Attribute(self, e, out):
        if e.attr in MEMO_ATTRS:
            self.assumptions.add("memo attribute " + e.attr)
            t = self.tmp()
            out.append(("SNew", t, []))
            return t
        if self.module_root(e.value):
            return self.atom(out)
        base = self.expr(e.value, out)
        t = self.tmp()
        props = self.lib.properties.get(e.attr, [])
        recv_classes = self.static_classes(e.value)
        if recv_classes is not None:
            props = [p for p in props if p.cls in recv_classes]
        field_possible = (e.attr in self.lib.class_fields) or not props or recv_classes is None
        blocks = []
        if field_possible or not props:
            blocks.append([("SRead", t, base)])
        for p in props:
            if p.name in MEMO_FUNCS:
                self.assumptions.add("memo property " + p.name)
                blocks.append([("SRead", t, base)])
                continue
            blocks.append([("SCall", t, p.index, [base, self.G])])
        chain = blocks[-1]
        for b in reversed(blocks[:-1]):
            chain = [("SIf", b, chain)]
        out.extend(chain)
        if props:
            self.may_raise(out)
        return t

    def module_root(self, e):
        while isinstance(e, ast.Attribute):
            e = e.value
        return e.id if isinstance(e, ast.Name) and e.id not in self.locals and e.id in MODULE_ALIASES else None

    def static_classes(self, recv):
        """classes a receiver expression can denote, when that is syntactically evident"""
        if isinstance(recv, ast.Name):
            if recv.id in ("self", "cls") and self.fn.cls and recv.id == (self.fn.pos[0] if self.fn.pos else None):
                return self.lib.related(self.fn.cls)
            if recv.id not in self.locals and recv.id in self.lib.classes:
                return self.lib.related(recv.id)
            ann = self.fn.annot.get(recv.id)
            if ann and ann in self.lib.classes and recv.id not in self._reassigned():
                return self.lib.related(ann)
        if isinstance(recv, ast.Call):
            if isinstance(recv.func, ast.Name) and recv.func.id == "super" and self.fn.cls:
                return self.lib.ancestors(self.fn.cls)
            if isinstance(recv.func, ast.Name) and recv.func.id in self.lib.classes and recv.func.id not in self.locals:
                return self.lib.related(recv.func.id)
        return None

    def _reassigned(self):
        if not hasattr(self, "_re"):
            self._re = {n.id for n in ast.walk(self.fn.node) if isinstance(n, ast.Name) and isinstance(n.ctx, ast.Store)}
        return self._re

    def e_Subscript(self, e, out):
        if any(isinstance(n, ast.Attribute) and n.attr in MEMO_ATTRS for n in ast.walk(e.value)):
            self.assumptions.add("memo table subscript")
            if not isinstance(e.slice, ast.Slice):
                self.expr(e.slice, out)
            t = self.tmp()
            out.append(("SNew", t, []))
            self.may_raise(out)
            return t
        base = self.expr(e.value, out)
        if isinstance(e.slice, ast.Slice):
            for part in (e.slice.lower, e.slice.upper, e.slice.step):
                if part is not None:
                    self.expr(part, out)
            t = self.tmp()
            out.append(("SCopy", t, base))
            return t
        self.expr(e.slice, out)
        self.dunder(out, ["__hash__"], [base])
        t = self.tmp()
        out.append(("SRead", t, base))
        self.may_raise(out)
        return t

    def e_BinOp(self, e, out):
        a, b = self.expr(e.left, out), self.expr(e.right, out)
        return self.fresh_from(out, [a, b])

    def e_UnaryOp(self, e, out):
        self.expr(e.operand, out)
        return self.atom(out)

    def e_BoolOp(self, e, out):
        t = self.tmp()
        vs = []
        # a or b / a and b: every operand may be evaluated; the result is one of them
        blk = out
        first = self.expr(e.values[0], blk)
        blk.append(("SMove", t, first))
        for v in e.values[1:]:
            inner = []
            x = self.expr(v, inner)
            inner.append(("SMove", t, x))
            blk.append(("SIf", inner, []))
        return t

    def e_Compare(self, e, out):
        vals = [self.expr(e.left, out)] + [self.expr(c, out) for c in e.comparators]
        for op, (a, b) in zip(e.ops, zip(vals, vals[1:])):
            if isinstance(op, (ast.Eq, ast.NotEq, ast.In, ast.NotIn)):
                x = self.tmp()
                out.append(("SRead", x, b))      # membership compares against the elements
                self.dunder(out, ["__eq__"], [a, x])
                self.dunder(out, ["__eq__"], [x, a])
                self.dunder(out, ["__hash__"], [a])
            elif isinstance(op, (ast.Lt, ast.LtE, ast.Gt, ast.GtE)):
                self.dunder(out, ["__lt__", "__le__", "__gt__", "__ge__"], [a, b])
        return self.atom(out)

    def e_IfExp(self, e, out):
        self.expr(e.test, out)
        t = self.tmp()
        a, b = [], []
        a.append(("SMove", t, self.expr(e.body, a)))
        b.append(("SMove", t, self.expr(e.orelse, b)))
        out.append(("SIf", a, b))
        return t

    def e_Tuple(self, e, out):
        return self._display(e.elts, out)

    e_List = e_Tuple
    e_Set = e_Tuple

    def _display(self, elts, out):
        vs = []
        stars = []
        for x in elts:
            if isinstance(x, ast.Starred):
                stars.append(self.expr(x.value, out))
            else:
                vs.append(self.expr(x, out))
        t = self.tmp()
        out.append(("SNew", t, vs))
        for s in stars:
            el = self.tmp()
            out.append(("SLoop", [("SRead", el, s), ("SWrite", t, [el])]))
        return t

    def e_Dict(self, e, out):
        vs, stars = [], []
        for k, v in zip(e.keys, e.values):
            if k is None:
                stars.append(self.expr(v, out))
            else:
                vs.append(self.expr(k, out))
                vs.append(self.expr(v, out))
        t = self.tmp()
        out.append(("SNew", t, vs))
        for s in stars:
            el = self.tmp()
            out.append(("SLoop", [("SRead", el, s), ("SWrite", t, [el])]))
        return t

    def _comprehension(self, e, elts, out):
        t = self.tmp()
        out.append(("SNew", t, []))

        def gen(i, blk):
            if i == len(e.generators):
                vs = [self.expr(x, blk) for x in elts]
                for v in vs:
                    self.dunder(blk, ["__hash__"], [v]) if isinstance(e, (ast.SetComp, ast.DictComp)) else None
                blk.append(("SWrite", t, vs))
                return
            g = e.generators[i]
            if g.is_async:
                raise Unsupported("async comprehension")
            it = self.expr(g.iter, blk)
            body = []
            item = self.tmp()
            body.append(("SRead", item, it))
            self.assign_target(g.target, item, body, unpack_from_element=True)
            inner = body
            for c in g.ifs:
                self.expr(c, inner)
                nxt = []
                inner.append(("SIf", nxt, []))
                inner = nxt
            gen(i + 1, inner)
            blk.append(("SLoop", body))

        gen(0, out)
        return t

    def e_ListComp(self, e, out):
        return self._comprehension(e, [e.elt], out)

    e_SetComp = e_ListComp
    e_GeneratorExp = e_ListComp

    def e_DictComp(self, e, out):
        return self._comprehension(e, [e.key, e.value], out)

    def e_Lambda(self, e, out):
        # the lambda may be called any number of times with unknown arguments: run its body in place
        body = []
        for a in e.args.args:
            body.append(("SAny", self.var(a.arg)))
        self.expr(e.body, body)
        out.append(("SLoop", body))
        return self.atom(out)

    def e_Starred(self, e, out):
        return self.expr(e.value, out)

    def e_NamedExpr(self, e, out):
        v = self.expr(e.value, out)
        out.append(("SMove", self.var(e.target.id), v))
        return v

    # ---- calls ----------------------------------------------------------------------------------------
    def is_logger_call(self, func):
        n = func
        while isinstance(n, ast.Attribute):
            if n.attr in LOGGER_NAMES:
                return True
            n = n.value
        return isinstance(n, ast.Name) and n.id in LOGGER_NAMES and n.id not in self.locals

    def e_Call(self, e, out):
        func = e.func
        if self.is_logger_call(func) and isinstance(func, ast.Attribute):
            for a in e.args:
                self.expr(a, out)
            for k in e.keywords:
                self.expr(k.value, out)
            return self.atom(out)
        pos, stars = [], []
        for a in e.args:
            if isinstance(a, ast.Starred):
                stars.append(self.expr(a.value, out))
            else:
                pos.append(self.expr(a, out))
        kws, starkw = {}, None
        lambdas = [k for k in e.keywords if isinstance(k.value, ast.Lambda)]
        for k in e.keywords:
            if k.arg is None:
                starkw = self.expr(k.value, out)
            else:
                kws[k.arg] = self.expr(k.value, out)
        local_class = (isinstance(func, ast.Name) and func.id in self.fn.params and
                       (self.fn.annot.get(func.id) or "").lower().startswith("type["))
        if stars and not local_class and not ((isinstance(func, ast.Name) and func.id not in self.locals and
                           (func.id in BUILTIN_COPY or func.id in EXCEPTIONS or func.id in BUILTIN_ATOM)) or
                          (isinstance(func, ast.Attribute) and self.module_root(func.value))):
            raise Unsupported("*args in a call")
        allvals = pos + stars + list(kws.values()) + ([starkw] if starkw is not None else [])
        if local_class:
            t = self.construct(None, pos, kws, starkw, pos + list(kws.values()), out)
            for sv in stars:
                el = self.tmp()
                out.append(("SLoop", [("SRead", el, sv), ("SWrite", t, [el])]))
            return t

        if isinstance(func, ast.Name) and func.id not in self.locals:
            return self.call_name(func.id, pos, kws, starkw, allvals, out)
        if isinstance(func, ast.Attribute):
            return self.call_attr(func, pos, kws, starkw, allvals, out)
        if isinstance(func, ast.Call) and isinstance(func.func, ast.Name) and func.func.id == "type" and func.func.id not in self.locals:
            # type(obj)(**fields): an instance of an unknown library class
            self.expr(func.args[0], out)
            return self.construct(None, pos, kws, starkw, allvals, out)
        if isinstance(func, ast.Subscript):
            # registry[key](...) : an instance of some registered class (or a call of a stored function)
            self.expr(func, out)
            return self.construct(None, pos, kws, starkw, allvals, out)
        raise Unsupported("call of " + type(func).__name__)

    def construct(self, cname, pos, kws, starkw, allvals, out):
        """Class(...) -> new cell; then __init__ / __post_init__ of the class (or of any class if unknown)"""
        if cname is not None and self.lib.is_enum(cname):
            t = self.tmp()
            out.append(("SRead", t, self.G))     # the existing member
            return t
        t = self.tmp()
        out.append(("SNew", t, [v for v in allvals]))
        if starkw is not None:
            el = self.tmp()
            out.append(("SLoop", [("SRead", el, starkw), ("SWrite", t, [el])]))
        classes = ({cname} | self.lib.ancestors(cname)) if cname else None
        inits = [f for f in self.lib.methods("__init__", classes)]
        if cname:
            # the nearest __init__ in the MRO: keep all candidates among ancestors (over-approximation)
            pass
        inits = [f for f in inits if self.compatible(f, len(pos), kws, True)]
        posts = self.lib.methods("__post_init__", classes)
        if inits:
            self.call_chain(out + [] if False else out, inits,
                            lambda f, blk: self.bind_args(f, t, pos, kws, blk, starkw), result=self.tmp())
        for f in posts:
            blk = []
            blk.append(("SCall", self.tmp(), f.index, [t, self.G]))
            out.append(("SIf", blk, []) if cname is None else blk[0])
        return t

    def call_name(self, name, pos, kws, starkw, allvals, out):
        if name in self.lib.classes:
            return self.construct(name, pos, kws, starkw, allvals, out)
        fns = [f for f in self.lib.by_name.get(name, []) if f.cls is None]
        if fns:
            fns = [f for f in fns if self.compatible(f, len(pos), kws, False)]
            return self.call_chain(out, fns, lambda f, blk: self.bind_args(f, None, pos, kws, blk, starkw))
        if name in EXCEPTIONS:
            t = self.tmp()
            out.append(("SNew", t, allvals))
            return t
        if name in BUILTIN_NEW:
            t = self.tmp()
            out.append(("SNew", t, []))
            self.may_raise(out)
            return t
        if name in BUILTIN_ATOM:
            if name in ("str", "repr", "format", "print"):
                for v in allvals:
                    self.dunder(out, ["__str__", "__repr__", "__format__"], [v])
            if name == "hash":
                self.dunder(out, ["__hash__"], allvals[:1])
            if name in ("int", "bytes", "float", "Decimal"):
                self.may_raise(out)
            return self.atom(out)
        if name in BUILTIN_ELEMENT:
            t = self.tmp()
            src = allvals[-1] if name == "cast" else allvals[0]
            out.append(("SRead", t, src))
            self.may_raise(out)
            return t
        if name in BUILTIN_COPY:
            if name in ("set", "frozenset", "dict", "sorted"):
                for v in allvals:
                    x = self.tmp()
                    out.append(("SRead", x, v))
                    self.dunder(out, ["__hash__", "__eq__", "__lt__"][:2] if name != "sorted" else ["__lt__"], [x] if name != "sorted" else [x, x])
            return self.fresh_from(out, [v for v in allvals])
        if name == "super":
            return self.atom(out)
        raise Unsupported("call of unknown name " + name)

    def call_attr(self, func, pos, kws, starkw, allvals, out):
        m = func.attr
        recv = func.value
        # module functions
        if self.module_root(recv):
            root = self.module_root(recv)
            how = MODULE_FUNCS.get((root, m), MODULE_FUNCS.get((root, "*"), "?"))
            if how == "atom":
                self.may_raise(out)
                return self.atom(out)
            if how == "new":
                t = self.tmp()
                out.append(("SNew", t, []))
                self.may_raise(out)
                return t
            if how == "deep":
                t = self.tmp()
                out.append(("SDeep", t, allvals[0]))
                return t
            if how == "copy":
                t = self.tmp()
                out.append(("SCopy", t, allvals[0]))
                return t
            if how == "copyall":
                return self.fresh_from(out, allvals)
            if how == "element":
                t = self.tmp()
                out.append(("SRead", t, allvals[-1]))
                return t
            raise Unsupported(f"module function {root}.{m}")
        classes = self.static_classes(recv)
        # Class.method / cls.method / self.method / super().method / Class().method
        recv_is_class = (isinstance(recv, ast.Name) and recv.id not in self.locals and recv.id in self.lib.classes) or \
                        (isinstance(recv, ast.Name) and recv.id == "cls" and self.fn.kind == "classmethod")
        if isinstance(recv, ast.Call) and isinstance(recv.func, ast.Name) and recv.func.id == "super":
            base = self.var(self.fn.pos[0])
        elif recv_is_class:
            base = None
            if isinstance(recv, ast.Name) and recv.id in self.lib.classes and self.lib.is_enum(recv.id):
                return self.atom(out)       # Enum helpers
        else:
            base = self.expr(recv, out)
        cands = self.lib.methods(m, classes)
        if classes is not None and not cands:
            cands = []
        builtin = m in MUTATORS or m in PURE_ELEMENT or m in PURE_COPY or m in PURE_ATOM
        if classes is None and not builtin and not cands:
            raise Unsupported("method " + m + " is neither a library method nor a known builtin method")
        blocks = []
        t = self.tmp()
        if classes is None and builtin or (classes is not None and not cands and builtin):
            b = []
            if base is None:
                raise Unsupported("builtin method on a class")
            if m in MUTATORS:
                if m in MUTATOR_RETURNS_ELEMENT:
                    b.append(("SRead", t, base))
                else:
                    b.append(("SAtom", t))
                if m in MUTATOR_TAKES_COLLECTION and allvals:
                    el = self.tmp()
                    b.append(("SLoop", [("SRead", el, allvals[0]), ("SWrite", base, [el])]))
                else:
                    b.append(("SWrite", base, list(allvals)))
            elif m in PURE_ELEMENT:
                b.append(("SRead", t, base))
                if m == "items":
                    pass
            elif m in PURE_COPY:
                b.append(("SCopy", t, base))
                for v in allvals:
                    el = self.tmp()
                    b.append(("SLoop", [("SRead", el, v), ("SWrite", t, [el])]))
            else:
                b.append(("SAtom", t))
            blocks.append(b)
        for f in cands:
            if f.kind in ("method",):
                if base is None:
                    # Class.method(obj, ...) : explicit receiver
                    if not self.compatible(f, len(pos), kws, False):
                        continue
                    b = []
                    b.append(("SCall", t, f.index, self.bind_args(f, None, pos, kws, b, starkw)))
                else:
                    if not self.compatible(f, len(pos), kws, True):
                        continue
                    b = []
                    b.append(("SCall", t, f.index, self.bind_args(f, base, pos, kws, b, starkw)))
            elif f.kind in ("classmethod", "staticmethod"):
                if not self.compatible(f, len(pos), kws, True):
                    continue
                b = []
                b.append(("SCall", t, f.index, self.bind_args(f, None, pos, kws, b, starkw)))
            else:
                continue
            blocks.append(b)
        if not blocks:
            raise Unsupported("no callable candidate for ." + m)
        chain = blocks[-1]
        for b in reversed(blocks[:-1]):
            chain = [("SIf", b, chain)]
        out.extend(chain)
        self.may_raise(out)
        return t

    # ---- assignment targets ---------------------------------------------------------------------------
    def assign_target(self, target, v, out, unpack_from_element=False):
        if isinstance(target, ast.Name):
            out.append(("SMove", self.var(target.id), v))
        elif isinstance(target, (ast.Tuple, ast.List)):
            for el in target.elts:
                x = self.tmp()
                out.append(("SRead", x, v))
                self.assign_target(el.value if isinstance(el, ast.Starred) else el, x, out)
        elif isinstance(target, ast.Attribute):
            base = self.expr(target.value, out)
            out.append(("SWrite", base, [v]))
        elif isinstance(target, ast.Subscript):
            base = self.expr(target.value, out)
            k = self.expr(target.slice, out) if not isinstance(target.slice, ast.Slice) else self.atom(out)
            self.dunder(out, ["__hash__"], [k])
            out.append(("SWrite", base, [k, v]))
        else:
            raise Unsupported("assignment target " + type(target).__name__)

    # ---- statements -----------------------------------------------------------------------------------
    @staticmethod
    def jumps(stmts):
        """does this block certainly end in break / continue?"""
        if not stmts:
            return False
        last = stmts[-1]
        if isinstance(last, (ast.Break, ast.Continue)):
            return True
        if isinstance(last, ast.If):
            return Tr.jumps(last.body) and Tr.jumps(last.orelse)
        return False

    def block(self, stmts, out):
        for i, st in enumerate(stmts):
            if isinstance(st, ast.If) and (self.jumps(st.body) or self.jumps(st.orelse)):
                self.expr(st.test, out)
                a, b = [], []
                self.block(st.body, a)
                self.block(st.orelse, b)
                rest = stmts[i + 1:]
                if not self.jumps(st.body):
                    self.block(rest, a)
                if not self.jumps(st.orelse):
                    self.block(rest, b)
                out.append(("SIf", a, b))
                return
            self.stmt(st, out)

    def stmt(self, st, out):
        m = getattr(self, "s_" + type(st).__name__, None)
        if m is None:
            raise Unsupported("statement " + type(st).__name__)
        m(st, out)

    def s_Expr(self, st, out):
        if isinstance(st.value, ast.Constant):
            return
        self.expr(st.value, out)

    def s_Pass(self, st, out):
        pass

    def s_Break(self, st, out):
        pass          # handled by block(): always last in its block

    s_Continue = s_Break

    def s_Assert(self, st, out):
        self.expr(st.test, out)
        if st.msg is not None:
            self.expr(st.msg, out)
        self.may_raise(out)

    def s_Assign(self, st, out):
        v = self.expr(st.value, out)
        for t in st.targets:
            self.assign_target(t, v, out)

    def s_AnnAssign(self, st, out):
        if st.value is None:
            return
        v = self.expr(st.value, out)
        self.assign_target(st.target, v, out)

    def s_AugAssign(self, st, out):
        v = self.expr(st.value, out)
        if isinstance(st.target, ast.Name):
            x = self.var(st.target.id)
            if self.is_scalar_local(st.target.id):
                # x op= e on an int / bytes / str local: a new immutable value
                out.append(("SAtom", x))
            else:
                # x += e on a possibly mutable x is an in-place update (list.__iadd__)
                out.append(("SWrite", x, [v]))
        else:
            base = self.expr(st.target.value, out)
            out.append(("SWrite", base, [v]))

    def is_scalar_local(self, name):
        """every binding of this local is a literal scalar, arithmetic, len(..), a scalar-annotated parameter, or
        bytes built by struct.pack / b'' (read off the function's own text)"""
        ann = self.fn.annot.get(name)
        if name in self.fn.params:
            return ann in ATOM_ANNOTATIONS
        ok = False
        for n in ast.walk(self.fn.node):
            val = None
            if isinstance(n, ast.Assign) and any(isinstance(t, ast.Name) and t.id == name for t in n.targets):
                val = n.value
            elif isinstance(n, ast.AnnAssign) and isinstance(n.target, ast.Name) and n.target.id == name:
                if ast.unparse(n.annotation) in ATOM_ANNOTATIONS:
                    ok = True
                    continue
                val = n.value
            elif isinstance(n, (ast.For, ast.comprehension)) and any(
                    isinstance(x, ast.Name) and x.id == name for x in ast.walk(n.target)):
                return False
            else:
                continue
            if val is None:
                continue
            if isinstance(val, ast.Constant) and isinstance(val.value, (int, str, bytes, float, bool)):
                ok = True
            elif isinstance(val, ast.Call) and isinstance(val.func, ast.Name) and val.func.id in ("len", "int", "str", "bytes"):
                ok = True
            elif isinstance(val, ast.Call) and isinstance(val.func, ast.Attribute) and isinstance(val.func.value, ast.Name) \
                    and val.func.value.id == "struct" and val.func.attr == "pack":
                ok = True
            else:
                return False
        return ok

    def s_Return(self, st, out):
        v = self.expr(st.value, out) if st.value is not None else self.atom(out)
        out.append(("SRet", v))

    def s_Raise(self, st, out):
        if st.exc is not None:
            self.expr(st.exc, out)
        if st.cause is not None:
            self.expr(st.cause, out)
        out.append(("SRaise",))

    def s_If(self, st, out):
        self.expr(st.test, out)
        a, b = [], []
        self.block(st.body, a)
        self.block(st.orelse, b)
        out.append(("SIf", a, b))

    def s_For(self, st, out):
        if st.orelse:
            raise Unsupported("for-else")
        it = self.expr(st.iter, out)
        body = []
        item = self.tmp()
        body.append(("SRead", item, it))
        self.assign_target(st.target, item, body)
        self.block(st.body, body)
        out.append(("SLoop", body))

    def s_While(self, st, out):
        if st.orelse:
            raise Unsupported("while-else")
        body = []
        self.expr(st.test, body)
        self.block(st.body, body)
        out.append(("SLoop", body))
        self.expr(st.test, out)

    def s_Try(self, st, out):
        if st.finalbody:
            raise Unsupported("try-finally")
        body = []
        self.block(st.body, body)
        self.block(st.orelse, body)
        handler = []
        chain = [("SRaise",)]                    # an exception no handler names propagates
        for h in reversed(st.handlers):
            hb = []
            if h.name:
                hb.append(("SAny", self.var(h.name)))
            self.block(h.body, hb)
            chain = [("SIf", hb, chain)]
        out.append(("STry", body, chain))

    def s_With(self, st, out):
        for item in st.items:
            v = self.expr(item.context_expr, out)
            if item.optional_vars is not None:
                self.assign_target(item.optional_vars, v, out)
        self.block(st.body, out)

    def s_Delete(self, st, out):
        for t in st.targets:
            if isinstance(t, ast.Subscript):
                base = self.expr(t.value, out)
                out.append(("SWrite", base, []))
            elif isinstance(t, ast.Attribute):
                base = self.expr(t.value, out)
                out.append(("SWrite", base, []))
            elif isinstance(t, ast.Name):
                out.append(("SAtom", self.var(t.id)))
            else:
                raise Unsupported("del target")

    def s_Import(self, st, out):
        pass

    s_ImportFrom = s_Import

    def run(self):
        out = []
        # scalar-annotated parameters are immutable values whatever the caller passes
        for p in self.fn.params:
            if self.fn.annot.get(p) in ATOM_ANNOTATIONS:
                out.append(("SAtom", self.vars[p]))
        for n in ast.walk(self.fn.node):
            if n is not self.fn.node and isinstance(n, (ast.FunctionDef, ast.AsyncFunctionDef, ast.ClassDef)):
                raise Unsupported("nested def/class")
            if isinstance(n, (ast.Yield, ast.YieldFrom, ast.Await, ast.AsyncWith, ast.AsyncFor)):
                raise Unsupported(type(n).__name__)
        self.block(self.fn.node.body, out)
        return out


MODULE_ALIASES = {"struct", "copy", "dataclasses", "io", "math", "os", "uuid", "decimal", "itertools", "functools", "re",
                  "json", "int", "bytes", "str", "dict", "typing", "difflib", "dataclass_wizard"}


# ---- a python mirror of Heap.check, for diagnostics only (names the statement that fails) -------------
def py_check(fns, sums):
    """returns {index: reason} for functions the ownership check rejects under the summaries"""
    bad = {}

    def chk(p, g, path):
        for i, s in enumerate(p):
            k = s[0]
            if k in ("SAtom", "SNew", "SCopy", "SDeep"):
                g = dict(g); g[s[1]] = True
            elif k in ("SAny", "SRead"):
                g = dict(g); g[s[1]] = False
            elif k == "SMove":
                g = dict(g); g[s[1]] = g.get(s[2], False)
            elif k == "SWrite":
                if not g.get(s[1], False):
                    raise Reject(f"{path}/{i}: write to a variable that may hold a caller's object (v{s[1]})")
            elif k == "SRet":
                g = dict(g); g["ret"] = g["ret"] and g.get(s[1], False)
            elif k == "SRaise":
                pass
            elif k == "SIf":
                ga, gb = chk(s[1], g, f"{path}/{i}a"), chk(s[2], g, f"{path}/{i}b")
                g = meet(ga, gb)
            elif k == "STry":
                ga = chk(s[1], g, f"{path}/{i}t")
                gh = chk(s[2], {"ret": ga["ret"]}, f"{path}/{i}h")
                g = meet(ga, gh)
            elif k == "SLoop":
                cur = g
                for _ in range(len(g) + 3):
                    g1 = chk(s[1], cur, f"{path}/{i}l")
                    nxt = meet(cur, g1)
                    if nxt == cur:
                        break
                    cur = nxt
                g = cur
            elif k == "SCall":
                sm = sums[s[2]]
                for j, pf in enumerate(sm["pfresh"]):
                    if pf and not (j < len(s[3]) and g.get(s[3][j], False)):
                        raise Reject(f"{path}/{i}: argument {j} of call to #{s[2]} must be an object created here")
                g = dict(g); g[s[1]] = sm["ret"]
            else:
                raise Reject("unknown statement " + k)
        return g

    def meet(a, b):
        out = {k: a.get(k, False) and b.get(k, False) for k in set(a) | set(b)}
        return out

    class Reject(Exception):
        pass

    new = []
    for f in fns:
        g = {i: True for i, b in enumerate(f.pfresh) if b}
        g["ret"] = True
        try:
            g1 = chk(f.body, g, "")
            new.append(g1["ret"])
        except Reject as r:
            bad[f.index] = str(r)
            new.append(False)
    return bad, new


def fmt_list(xs):
    return "[" + ";".join(str(x) for x in xs) + "]"


def fmt_stmts(p):
    return "[" + "; ".join(fmt_stmt(s) for s in p) + "]"


def fmt_stmt(s):
    k = s[0]
    if k in ("SAtom", "SAny"):
        return f"{k} {s[1]}"
    if k in ("SNew", "SWrite"):
        return f"{k} {s[1]} {fmt_list(s[2])}"
    if k in ("SCopy", "SDeep", "SMove", "SRead"):
        return f"{k} {s[1]} {s[2]}"
    if k == "SRet":
        return f"SRet {s[1]}"
    if k == "SRaise":
        return "SRaise"
    if k in ("SIf", "STry"):
        return f"{k} {fmt_stmts(s[1])} {fmt_stmts(s[2])}"
    if k == "SLoop":
        return f"SLoop {fmt_stmts(s[1])}"
    if k == "SCall":
        return f"SCall {s[1]} {s[2]} {fmt_list(s[3])}"
    raise ValueError(k)


def count(p):
    n = 0
    for s in p:
        n += 1
        for part in s[1:]:
            if isinstance(part, list) and part and isinstance(part[0], tuple):
                n += count(part)
    return n


def depth(p):
    d = len(p)
    best = 0
    for s in p:
        for part in s[1:]:
            if isinstance(part, list) and part and isinstance(part[0], tuple):
                best = max(best, depth(part))
    return d + best


def translate(src: Path, root: Path = None):
    lib = Library(src, root)
    assumptions = set()
    for f in lib.fns:
        try:
            if f.name in MEMO_FUNCS:
                raise Unsupported("memo property (excluded from the property: a cache, see MEMO_FUNCS)")
            if getattr(f, "bad_decorator", None):
                raise Unsupported(f"decorator @{f.bad_decorator}: what it wraps the function in is not read (a cache would hand "
                                  f"the same object to every caller)")
            tr = Tr(lib, f)
            f.body = tr.run()
            f.nvars = len(tr.vars)
            assumptions |= tr.assumptions
        except Unsupported as u:
            f.uncovered = str(u)
            tr = Tr.__new__(Tr)
            # assumed summary: reads its arguments, returns an unknown value, writes nothing
            n = len(f.params) + 1
            f.body = [("SAny", n), ("SRet", n)]
            f.nvars = n + 1
        f.pfresh = [False] * (len(f.params) + 1)
        if f.name in ("__init__", "__post_init__") and f.cls:
            f.pfresh[0] = True
    # a private helper that updates an object handed to it (a stream it reads from, a list it fills) is
    # accepted when every caller hands it an object the caller created: mark that parameter and let the
    # check verify all call sites.  Public entry points are never marked (props/C13.v demands it).
    import re
    entry_ids = {e for e, _ in ENTRY_POINTS}
    for _round in range(6):
        sums = [{"pfresh": f.pfresh, "ret": False} for f in lib.fns]
        bad, _ = py_check(lib.fns, sums)
        changed = False
        for i, reason in bad.items():
            f = lib.fns[i]
            m = re.search(r"write to a variable that may hold a caller's object \(v(\d+)\)", reason)
            if m and int(m.group(1)) < len(f.params) and f.name.startswith("_") and f.fid not in entry_ids:
                if not f.pfresh[int(m.group(1))]:
                    f.pfresh[int(m.group(1))] = True
                    changed = True
        if not changed:
            break
    return lib, assumptions


ENTRY_POINTS = [
    # (function id suffix, must the result be a new object?)
    ("io.chk.chk_io:ChkIo.decode_chk_binary_data", True),
    ("io.chk.chk_io:ChkIo.encode_chk_to_bytes", True),
    ("io.richchk.richchk_io:RichChkIo.decode_chk", True),
    ("io.richchk.richchk_io:RichChkIo.encode_chk", True),
    ("io.richchk.rich_str_lookup_builder:RichStrLookupBuilder.build_lookup", True),
    ("io.richchk.decoded_str_section_rebuilder:DecodedStrSectionRebuilder.rebuild_str_section_from_rich_chk", True),
    ("io.richchk.lookups.mrgn.rich_mrgn_lookup_builder:RichMrgnLookupBuilder.build_lookup", True),
    ("io.richchk.lookups.mrgn.rich_mrgn_section_rebuilder:RichMrgnSectionRebuilder.rebuild_rich_mrgn_section_from_rich_chk", True),
    ("io.richchk.lookups.swnm.rich_swnm_lookup_builder:RichSwnmLookupBuilder.build_lookup", True),
    ("io.richchk.lookups.swnm.rich_swnm_rebuilder:RichSwnmRebuilder.rebuild_rich_swnm_from_rich_chk", True),
    ("io.richchk.lookups.uprp.rich_cuwp_lookup_builder:RichCuwpLookupBuilder.build_lookup", True),
    ("io.richchk.lookups.uprp.rich_cuwp_lookup_builder:RichCuwpLookupBuilder.build_lookup_from_rich_uprp", True),
    ("io.richchk.lookups.uprp.rich_uprp_rebuilder:RichUprpRebuilder.rebuild_rich_uprp_section_from_rich_chk", True),
    ("io.richchk.lookups.upus.decoded_upus_rebuilder:DecodedUpusRebuilder.rebuild_upus_from_rich_uprp", True),
    ("editor.richchk.rich_chk_editor:RichChkEditor.replace_chk_section", True),
    ("editor.richchk.rich_trig_editor:RichTrigEditor.add_triggers", True),
    ("editor.richchk.rich_mrgn_editor:RichMrgnEditor.add_locations", True),
    ("editor.richchk.rich_uprp_editor:RichUprpEditor.add_cuwp_slots", True),
    ("editor.richchk.rich_wav_editor:RichWavEditor.add_wav_files", True),
    ("editor.richchk.rich_swnm_editor:RichSwnmEditor.add_switches", True),
    ("editor.richchk.rich_unis_editor:RichUnisEditor.upsert_all_unit_settings", True),
    ("editor.richchk.rich_unis_editor:RichUnisEditor.upsert_unit_setting", True),
    ("editor.richchk.rich_unix_editor:RichUnixEditor.upsert_all_unit_settings", True),
    ("editor.richchk.rich_unix_editor:RichUnixEditor.upsert_unit_setting", True),
    ("editor.chk.decoded_str_section_editor:DecodedStrSectionEditor.add_strings_to_str_section", True),
    ("editor.chk.decoded_strx_section_editor:DecodedStrxSectionEditor.add_strings_to_strx_section", True),
    ("editor.chk.decoded_strx_section_generator:DecodedStrxSectionGenerator.generate_strx_from_str", True),
    ("util.dataclasses_util:build_dataclass_with_fields", True),
]


def render(lib: Library, assumptions, prefix="gen_heap", entry_points=None):
    fns = lib.fns
    entry_points = ENTRY_POINTS if entry_points is None else entry_points
    # summaries by downward iteration (diagnostics; Coq recomputes them)
    sums = [{"pfresh": f.pfresh, "ret": True} for f in fns]
    rounds = 0
    bad = {}
    for rounds in range(1, len(fns) + 3):
        bad, rets = py_check(fns, sums)
        new = [{"pfresh": f.pfresh, "ret": r} for f, r in zip(fns, rets)]
        if new == sums:
            break
        sums = new
    by_id = {f.fid: f for f in fns}
    entries, missing = [], []
    for fid, _new in entry_points:
        if fid in by_id:
            entries.append(by_id[fid].index)
        else:
            missing.append(fid)
    total = sum(count(f.body) for f in fns)
    fuel = max([depth(f.body) for f in fns] + [1]) + 10
    lines = ["(* GENERATED from /repo on every run by tools/translate_heap.py; do not edit. *)",
             "From Coq Require Import NArith List.", "From RC Require Import model.Heap.", "Import ListNotations.", ""]
    lines.append(f"Definition {prefix}_table : list func := [")
    for i, f in enumerate(fns):
        sep = ";" if i + 1 < len(fns) else ""
        tag = " UNCOVERED(assumed pure): " + f.uncovered if f.uncovered else ""
        lines.append(f"  (* {i} {f.fid}{tag} *)")
        lines.append(f"  mkfunc {f.nvars} {fmt_list('true' if b else 'false' for b in f.pfresh)} {fmt_stmts(f.body)}{sep}")
    lines.append("].")
    lines.append(f"Definition {prefix}_fuel : nat := {fuel}.")
    lines.append(f"Definition {prefix}_rounds : nat := {rounds + 2}.")
    lines.append(f"Definition {prefix}_entries : list nat := {fmt_list(entries)}.")
    lines.append(f"Definition {prefix}_assumed : list nat := {fmt_list(f.index for f in fns if f.uncovered)}.")
    info = {
        "functions": len(fns), "statements": total, "fuel": fuel, "summary_rounds": rounds,
        "uncovered": {f.fid: f.uncovered for f in fns if f.uncovered},
        "rejected": {fns[i].fid: r for i, r in bad.items()},
        "entries": {fns[i].fid: {"index": i, "returns_new": sums[i]["ret"]} for i in entries},
        "entry_points_missing": missing,
        "names": [f.fid for f in fns],
        "reserved_parameters": {f.fid: [f.params[i] if i < len(f.params) else "<globals>" for i, b in enumerate(f.pfresh) if b]
                                for f in fns if any(f.pfresh)},
        "skipped_import_time_functions": lib.skipped,
        "assumptions": sorted(assumptions) + [
            "builtin / stdlib behaviour tables at the top of tools/translate_heap.py",
            "scalar-annotated parameters (int, str, bytes, bool, float, Decimal) hold immutable values",
            "logger calls have no effect on the objects of the property",
            "excluded: " + ", ".join(EXCLUDED_DIRS + EXCLUDED_FILES)],
    }
    return "\n".join(lines) + "\n", info


OUTPUTS = ["gen/GenHeap.v"]
EXPECTED_UNCOVERED = {"model.chk.decoded_chk:DecodedChk._sections_by_name", "model.richchk.rich_chk:RichChk._sections_by_name"}


def generate():
    """vlib.regen hook: {relative coq path: text}; also writes build/heap.json"""
    root = Path(__file__).resolve().parent.parent
    import vlib
    lib, assumptions = translate(vlib.SRC)
    text, info = render(lib, assumptions)
    (root / "build").mkdir(exist_ok=True)
    (root / "build/heap.json").write_text(json.dumps(info, indent=1))
    if info["entry_points_missing"]:
        raise RuntimeError("public operations not found in the source: " + ", ".join(info["entry_points_missing"]))
    return {"gen/GenHeap.v": text}


def main():
    src = Path(sys.argv[1]) if len(sys.argv) > 1 else Path("/repo/src")
    root = Path(__file__).resolve().parent.parent
    out_v = Path(sys.argv[2]) if len(sys.argv) > 2 else root / "coq/gen/GenHeap.v"
    out_json = Path(sys.argv[3]) if len(sys.argv) > 3 else root / "build/heap.json"
    lib, assumptions = translate(src)
    text, info = render(lib, assumptions)
    out_v.write_text(text)
    out_json.write_text(json.dumps(info, indent=1))
    print(f"functions={info['functions']} statements={info['statements']} uncovered={len(info['uncovered'])} "
          f"rejected={len(info['rejected'])} entries={len(info['entries'])} missing={info['entry_points_missing']}")
    return info


if __name__ == "__main__":
    main()
