"""Translator: the overwrite flags of the file-writing entry points (parameter names and DEFAULT values, read
from the source's AST) -> coq/gen/GenIoDefaults.v.  Fail-closed when an entry point or its flag disappears."""
from __future__ import annotations

import ast

from vlib import GEN_HEADER, PKG, TranslatorError, coq_bool, coq_list, coq_string

OUTPUTS = ["gen/GenIoDefaults.v"]

ENTRY_POINTS = [  # (file, class, function, flag parameter)
    ("io/chk/chk_io.py", "ChkIo", "encode_chk_to_file", "force_create"),
    ("mpq/stormlib/stormlib_wrapper.py", "StormLibWrapper", "extract_file", "overwrite_existing"),
    ("io/mpq/starcraft_mpq_io.py", "StarCraftMpqIo", "extract_chk_from_mpq", "overwrite_existing"),
    ("io/mpq/starcraft_mpq_io.py", "StarCraftMpqIo", "save_chk_to_mpq", "overwrite_existing"),
    ("io/mpq/starcraft_audio_files_io.py", "StarCraftAudioFilesIo", "add_audio_files_to_mpq", "overwrite_existing"),
]


def defaults():
    out = []
    for rel, cls, fn, flag in ENTRY_POINTS:
        tree = ast.parse((PKG / rel).read_text())
        c = next((n for n in tree.body if isinstance(n, ast.ClassDef) and n.name == cls), None)
        f = next((n for n in (c.body if c else []) if isinstance(n, ast.FunctionDef) and n.name == fn), None)
        if f is None:
            raise TranslatorError(f"{cls}.{fn} not found")
        args = f.args.args
        names = [a.arg for a in args]
        if flag not in names:
            raise TranslatorError(f"{cls}.{fn} has no parameter {flag}")
        i = names.index(flag)
        nd = len(f.args.defaults)
        j = i - (len(args) - nd)
        if j < 0:
            raise TranslatorError(f"{cls}.{fn}: {flag} has no default")
        d = f.args.defaults[j]
        if not (isinstance(d, ast.Constant) and isinstance(d.value, bool)):
            raise TranslatorError(f"{cls}.{fn}: default of {flag} is not a boolean literal")
        # the guard: an `if` whose test mentions os.path.exists and the flag, raising FileExistsError, must come
        # before any other statement that is not itself a guard
        guard_seen = False
        for st in f.body:
            if isinstance(st, ast.Expr) and isinstance(st.value, ast.Constant):
                continue
            if isinstance(st, ast.If):
                src = ast.unparse(st.test)
                raises = any(isinstance(x, ast.Raise) for x in ast.walk(st))
                if raises and "os.path.exists" in src and flag in src and "FileExistsError" in ast.unparse(st):
                    guard_seen = True
                    break
                if raises:
                    continue
            # extract_chk_from_mpq delegates the guard to extract_file: accept a call passing the flag through
            if fn == "extract_chk_from_mpq":
                if any(isinstance(x, ast.keyword) and x.arg == "overwrite_existing" and ast.unparse(x.value) == flag
                       for x in ast.walk(st)):
                    guard_seen = True
                    break
                continue
            break
        if not guard_seen:
            raise TranslatorError(f"{cls}.{fn}: no exists-and-not-{flag} guard before the first effect")
        out.append((fn, d.value))
    return out


def generate():
    txt = GEN_HEADER.format(tool="translate_iodefaults.py")
    txt += "From Coq Require Import String List.\nImport ListNotations.\nLocal Open Scope string_scope.\n\n"
    txt += "Definition gen_overwrite_defaults : list (string * bool) :=\n  " + coq_list(
        f"({coq_string(n)}, {coq_bool(v)})" for n, v in defaults()) + ".\n"
    return {"gen/GenIoDefaults.v": txt}


if __name__ == "__main__":
    print(generate()["gen/GenIoDefaults.v"])
