"""C02 — unedited load/save preserves every value the game reads."""
from __future__ import annotations

import json
import random
from pathlib import Path

import richcorr as RC
import scenarios as SC
import vlib
from vlib import T

PROP = "C02"
WITNESSES = {
    "mrgn-64-slots": lambda: dict(SC.fixtures())["test/resources/test-chkjson-scm.chk"],
    "orphan-weapons-zeroed": lambda: SC.MapGen(random.Random(11), "editor", nloc=255, all_sections=True, orphan_weapons=True).build(),
    "interior-gap-compacted": lambda: gap_witness(),
    "unused-fields-zeroed": lambda: SC.MapGen(random.Random(23), "wild", nloc=255, all_sections=True, ntrig=4).build(),
}


def gap_witness():
    """actions [Victory, <empty>, Defeat]: StarCraft stops at the empty entry; after the cycle Defeat is executable"""
    import sections as S
    b = SC.MapGen(random.Random(5), "editor", nloc=255, all_sections=True, ntrig=0).build()
    empty_a = dict.fromkeys(SC.ACTION_FIELDS, 0)
    acts = [dict(empty_a, _action_id=1), dict(empty_a), dict(empty_a, _action_id=2)] + [dict(empty_a)] * 61
    trig = {"_conditions": [dict(dict.fromkeys(SC.COND_FIELDS, 0), _condition_id=22)] + [dict.fromkeys(SC.COND_FIELDS, 0)] * 15,
            "_actions": acts,
            "_player_execution": {"_execution_flags": 0, "_player_flags": [1] + [0] * 26, "_current_action_index": 0}}
    payload = S.spec_write(S.SPEC_FULL["TRIG"], {"_triggers": [trig]})
    return b"".join(S.frame(n, payload if n == b"TRIG" else p) for n, p in SC.chunks_of(b))


def run(ck: vlib.Check):
    n = 60 if ck.tier == "quick" else 1500
    ck.rule = ("maps written byte by byte from the format description: editor-form and 'wild' (reserved bits set, gaps in "
               "trigger lists, unused fields filled, duplicate / shared string ids, UPUS arbitrary), 64- and 255-slot "
               "MRGN, optional sections present / absent, every supported / unsupported / unknown trigger entry kind; "
               "+ repository fixtures. After save(load(b)) an independent reader (format description only, references "
               "resolved to contents) must see the same sections, sizes, numbers, texts, slot contents and executed "
               "trigger entries; a map that cannot be represented must raise. Differences are matched against the "
               "recorded findings, anything else is a violation. Distinct = distinct map bytes.")
    drv_ok = RC.build_rich(ck, ["proofs/C03_proofs.vo", "proofs/C10_proofs.vo"], "props/C02.v")
    rng = ck.rng
    cases = [("fixture:" + nme, b) for nme, b in SC.fixtures()]
    for i in range(n):
        form = ("editor", "wild", "wild")[i % 3]
        opts = {}
        if i % 5 == 0:
            opts["orphan_weapons"] = True
        # string-table layouts: ids pointing inside a longer string (with a later stand-alone twin), and an id whose
        # offset points into the header (below the string data)
        opts.update([{}, {"interior_ids": 1.0}, {"header_ptr": True}, {"interior_ids": 1.0, "header_ptr": True}, {}][i % 5])
        if i % 4 == 1:
            opts["degenerate_locs"] = True
        if i % 3 == 2:
            opts["interleaved_ids"] = True
        if i % 2 == 0:
            opts["anywhere_flags"] = True
        cases.append((f"gen:{form}:{i}", SC.MapGen(rng, form, **opts).build()))
    known, _ = vlib.load_known_findings(PROP)
    known_keys = {f["key"]: f["text"] for f in known}
    impl = []
    dist = {"raises": 0, "same": 0, "known-finding-only": 0}
    for label, b in cases:
        r = RC.impl_load_save(b)
        impl.append(r)
        ck.evaluations += 1
        ck.note_case(label + ":" + str(len(b)) + ":" + str(hash(b)))
        if r[0] == 0:
            dist["raises"] += 1
            continue
        wm = SC.wav_meta_of(b)
        if wm:
            # the optional wav_metadata_lookup of encode_chk (always passed by the MPQ save) must not change what an
            # unedited map says: stored durations are explicit
            rw = RC.impl_load_save(b, wm)
            ck.evaluations += 1
            if rw != r:
                what = "raises" if rw[0] == 0 else "; ".join(RC.chunk_diff(bytes(r[1]), bytes(rw[1]))[:2])
                ck.violation(f"{label}: saving the unedited map WITH sound metadata differs from saving it without: {what}",
                             {"kind": "wavmeta", "label": label, "input_hex": b.hex() if len(b) < 400000 else None,
                              "wav_meta": wm}, True)
        diffs = SC.semantic_diff(b, bytes(r[1]))
        bad = [d for k, d in diffs if k is None or k not in known_keys]
        if bad:
            ck.violation(f"{label}: after an unedited load/save the game would read something else: {bad[0]}",
                         {"kind": "semantic", "label": label, "input_hex": b.hex() if len(b) < 400000 else None,
                          "differences": bad[:10]}, True)
        elif diffs:
            dist["known-finding-only"] += 1
        else:
            dist["same"] += 1
    ck.extra["outcomes"] = dist
    for key, text in known_keys.items():
        if key in WITNESSES:
            b = WITNESSES[key]()
            r = RC.impl_load_save(b)
            if r[0] == 1 and any(k == key for k, _ in SC.semantic_diff(b, bytes(r[1]))):
                ck.known(f"key={key} {text}")
    if drv_ok:
        got = vlib.run_model("Rich", [f"(1 {T(b)})" for _, b in cases])
        mism = [i for i, (g, r) in enumerate(zip(got, impl)) if not ((g.startswith("(0") and r[0] == 0) or g == T(r))]
        ck.corr_count("save(load(b)): implementation vs extracted pipeline model, byte for byte", len(cases), len(mism))
        if mism:
            i = mism[0]
            ck.notes.append(f"first mismatch {cases[i][0]}: impl {'raises' if impl[i][0] == 0 else 'ok'} model {got[i][:40]}")
        ck.sample({"case": cases[0][0], "bytes": len(cases[0][1])})
        ck.sample({"case": cases[-1][0], "bytes": len(cases[-1][1]), "result": "raises" if impl[-1][0] == 0 else "ok"})


def replay(path: str) -> int:
    rp = json.loads(Path(path).read_text())
    print("replaying:", rp.get("what"))
    if rp.get("input_hex"):
        b = bytes.fromhex(rp["input_hex"])
        r = RC.impl_load_save(b)
        if rp.get("kind") == "wavmeta":
            bad = RC.impl_load_save(b, rp["wav_meta"]) != r
            print("still failing" if bad else "no longer failing")
            return 1 if bad else 0
        known, _ = vlib.load_known_findings(PROP)
        keys = {f["key"] for f in known}
        bad = [d for k, d in SC.semantic_diff(b, bytes(r[1])) if k is None or k not in keys] if r[0] == 1 else []
        print("still failing: " + str(bad[:2]) if bad else "no longer failing")
        return 1 if bad else 0
    print(json.dumps(rp, indent=1)[:3000])
    return 1
