"""C11 — every emitted CHK is structurally valid, or the call raises."""
from __future__ import annotations

import json
import random
from pathlib import Path

import authoring as A
import richchecks as R
import richcorr as RC
import scenarios as SC
import validator
import vlib

PROP = "C11"


def degenerate(rng, base, spec):
    """turn a well-behaved scenario into one that stresses the format's limits"""
    how = rng.choice(["many-entries", "big-ints", "bad-index", "too-many-objects", "empty", "nothing"])
    trigs = R.authored_triggers(spec)
    if how == "many-entries" and trigs:
        t = rng.choice(trigs)
        t["conds"] = (t["conds"] or [["rich", 22, [], [False] * 5]]) * rng.choice([1, 17, 40])
        t["acts"] = (t["acts"] or [["rich", 1, [], [False] * 5]]) * rng.choice([1, 65, 100])
        t["conds"], t["acts"] = t["conds"][:100], t["acts"][:100]
    elif how == "big-ints":
        for t in trigs:
            for part in ("conds", "acts"):
                for e in t[part]:
                    if e[0] == "rich":
                        for a in e[2]:
                            if a[1][0] == 0 and rng.random() < 0.5:
                                a[1][1] = rng.choice([256, 65536, 2 ** 32, 2 ** 32 + 5, 2 ** 40])
    elif how == "bad-index":
        for l in spec["pool"]["locs"]:
            l[5] = rng.choice([0, 256, 1000, 64])
        for c in spec["pool"]["cuwps"]:
            c[10] = rng.choice([0, 65, 300])
        for s in spec["pool"]["switches"]:
            s[1] = rng.choice([256, 1000])
    elif how == "too-many-objects":
        kind = rng.choice(["locs", "cuwps", "switches"])
        n = {"locs": 300, "cuwps": 70, "switches": 300}[kind]
        if kind == "locs":
            spec["pool"]["locs"] = [[i, i, i, i, None, None, [True] * 6] for i in range(n)]
            spec["ops"].append(["add_triggers", [{"conds": [], "acts": [["rich", 10, [["_location", [2, i]]], [False] * 5]
                                                                         for i in range(k, min(n, k + 60))], "players": [0]}
                                                 for k in range(0, n, 60)]])
        elif kind == "cuwps":
            spec["pool"]["cuwps"] = [[1 + i % 100, i // 100, 5, i, 0, [False] * 5, [True] * 5 + [False], [True] * 6 + [False], False, 0, None]
                                     for i in range(n)]
            if not spec["pool"]["locs"]:
                spec["pool"]["locs"] = [[1, 1, 2, 2, None, None, [True] * 6]]
            spec["ops"].append(["add_triggers", [{"conds": [], "acts": [
                ["rich", 11, [["_group", [1, 0]], ["_amount", [0, 1]], ["_unit", [1, 0]], ["_location", [2, 0]], ["_properties", [6, i]]],
                 [False] * 5] for i in range(k, min(n, k + 60))], "players": [0]} for k in range(0, n, 60)]])
        else:
            spec["pool"]["switches"] = [[f"sw{i}", None] for i in range(n)]
            spec["ops"].append(["add_triggers", [{"conds": [], "acts": [
                ["rich", 13, [["_switch", [8, i]], ["_switch_action", [1, 4]]], [False] * 5]
                for i in range(k, min(n, k + 60))], "players": [0]} for k in range(0, n, 60)]])
    elif how == "empty":
        for t in trigs:
            t["players"] = []
            if rng.random() < 0.5:
                t["conds"], t["acts"] = [], []
    return how


def _loc_acts(idxs):
    return [["rich", 10, [["_location", [2, i]]], [False] * 5] for i in idxs]


def _cuwp_acts(idxs):
    return [["rich", 11, [["_group", [1, 0]], ["_amount", [0, 1]], ["_unit", [1, 0]], ["_location", [2, 0]], ["_properties", [6, i]]],
             [False] * 5] for i in idxs]


def _switch_acts(idxs):
    return [["rich", 13, [["_switch", [8, i]], ["_switch_action", [1, 4]]], [False] * 5] for i in idxs]


def _trigs(acts):
    return ["add_triggers", [{"conds": [], "acts": acts[k:k + 60], "players": [0]} for k in range(0, len(acts), 60)]]


def boundary_cases(bases):
    """deterministic scenarios sitting exactly on and one step beyond every table limit: the last slot of each
    table pinned, the slot after it, slot 0, and exactly-full / one-too-many counts (from an empty synthetic base
    and from each fixture)"""
    out = []
    for label, base in bases:
        v = SC.SpecView(base)
        used_cuwp = sum(1 for x in (v.by_name.get(b"UPUS") or [b""])[-1][:64] if x)
        for idx in (1, 63, 64, 65, 0, 255):
            spec = {"pool": {"locs": [[1, 1, 2, 2, None, None, [True] * 6]], "switches": [],
                             "cuwps": [[7, 3, 5, 11, 0, [False] * 5, [True] * 5 + [False], [True] * 6 + [False], False, 0, idx]]},
                    "ops": [_trigs(_cuwp_acts([0]))]}
            out.append((f"{label}:cuwp-pinned-{idx}", base, spec))
        for n in sorted({1, 64 - used_cuwp - 1, 64 - used_cuwp, 64 - used_cuwp + 1, 64, 65} - {0, -1}):
            if n <= 0:
                continue
            spec = {"pool": {"locs": [[1, 1, 2, 2, None, None, [True] * 6]], "switches": [],
                             "cuwps": [[1 + i, 9, 5, 1000 + i, 0, [False] * 5, [True] * 5 + [False], [True] * 6 + [False], False, 0, None]
                                       for i in range(n)]},
                    "ops": [_trigs(_cuwp_acts(range(n)))]}
            out.append((f"{label}:cuwp-count-{n}(base uses {used_cuwp})", base, spec))
        for idx in (1, 63, 64, 65, 254, 255, 256, 0):
            spec = {"pool": {"locs": [[1, 1, 2, 2, "pinned", idx, [True] * 6]], "switches": [], "cuwps": []},
                    "ops": [_trigs(_loc_acts([0]))]}
            out.append((f"{label}:loc-pinned-{idx}", base, spec))
        for n in (253, 254, 255, 256):
            spec = {"pool": {"locs": [[i, i, i + 1, i + 1, None, None, [True] * 6] for i in range(n)], "switches": [], "cuwps": []},
                    "ops": [_trigs(_loc_acts(range(n)))]}
            out.append((f"{label}:loc-count-{n}", base, spec))
        for idx in (0, 1, 254, 255, 256):
            spec = {"pool": {"locs": [], "cuwps": [], "switches": [["pinned switch", idx]]}, "ops": [_trigs(_switch_acts([0]))]}
            out.append((f"{label}:switch-pinned-{idx}", base, spec))
        for n in (254, 255, 256, 257):
            spec = {"pool": {"locs": [], "cuwps": [], "switches": [[f"sw{i}", None] for i in range(n)]},
                    "ops": [_trigs(_switch_acts(range(n)))]}
            out.append((f"{label}:switch-count-{n}", base, spec))
    return out


def handbuilt_cases(bases):
    """rich sections built by hand (replace_chk_section) holding an object at / beyond each table limit, and a trigger
    that refers to it: implementation only, judged by the structural validator"""
    out = []
    for label, base in bases:
        for idx in (0, 1, 64, 255, 256, 300, 70000):
            out.append((f"{label}:handbuilt-loc-{idx}", base,
                        {"pool": {"locs": [[1, 1, 2, 2, "hand", idx, [True] * 6]], "switches": [], "cuwps": []},
                         "ops": [["put_in_sections", {"locs": [0]}], _trigs(_loc_acts([0]))]}))
        for idx in (0, 1, 64, 65, 300):
            out.append((f"{label}:handbuilt-cuwp-{idx}", base,
                        {"pool": {"locs": [[1, 1, 2, 2, None, None, [True] * 6]], "switches": [],
                                  "cuwps": [[9, 8, 7, 6, 5, [False] * 5, [True] * 5 + [False], [True] * 6 + [False], False, 0, idx]]},
                         "ops": [["put_in_sections", {"cuwps": [0]}], _trigs(_cuwp_acts([0]))]}))
        for idx in (0, 255, 256, 300):
            out.append((f"{label}:handbuilt-switch-{idx}", base,
                        {"pool": {"locs": [], "cuwps": [], "switches": [["hand switch", idx]]},
                         "ops": [["put_in_sections", {"switches": [0]}], _trigs(_switch_acts([0]))]}))
    return out


def unterminated_string_tables(base):
    """the base map with its STR section replaced by tables in which some offset never reaches a NUL: no stored strings
    and 200 ids pointing into the (zero-free) offset table; a last string without its terminator; offsets at / past the
    end.  Loading or saving such a map must raise, or what is emitted must be a valid table."""
    import struct
    out = []
    tables = {
        "ids-into-offset-table": struct.pack("H", 200) + struct.pack("H", 0x0101) * 200,
        "last-string-unterminated": struct.pack("HHH", 2, 6, 8) + b"a\0bcd",
        "offset-at-end": struct.pack("HH", 1, 6) + b"a\0",
        "offset-past-end": struct.pack("HH", 1, 600) + b"a\0",
        "no-data-one-id": struct.pack("HH", 1, 2),
    }
    for nm, payload in tables.items():
        b = b"".join(n + len(payload if n == b"STR " else p).to_bytes(4, "little") + (payload if n == b"STR " else p)
                     for n, p in SC.chunks_of(base))
        out.append((f"str-table:{nm}", b, {"pool": {"locs": [], "cuwps": [], "switches": []}, "ops": []}))
    return out


def empty_object_cases(bases):
    """authored objects whose CONTENT is that of an empty slot (an all-zero location without a name, an all-zero
    unit-property set): the rich layer gives them a slot and points the trigger at it, but what it writes there is
    indistinguishable from an unused slot"""
    out = []
    for label, base in bases:
        for idx in (None, 7):
            out.append((f"{label}:all-zero-location-{idx}", base,
                        {"pool": {"locs": [[0, 0, 0, 0, None, idx, [True] * 6]], "switches": [], "cuwps": []},
                         "ops": [_trigs(_loc_acts([0]))]}))
        out.append((f"{label}:all-zero-cuwp", base,
                    {"pool": {"locs": [[1, 1, 2, 2, None, None, [True] * 6]], "switches": [],
                              "cuwps": [[0, 0, 0, 0, 0, [False] * 5, [False] * 6, [False] * 7, False, 0, None]]},
                     "ops": [_trigs(_cuwp_acts([0]))]}))
    return out


def equal_twin_cases(bases):
    """two unit-property sets with EQUAL properties as distinct objects, one of them carrying an index (free in the map's
    table, occupied, or out of it), referred to by two actions in either order; and the same with locations"""
    out = []
    for label, base in bases:
        vb = SC.SpecView(base)
        free = [i + 1 for i, c in enumerate(vb.cuwps or []) if not any(c.values())]
        used = [i + 1 for i, c in enumerate(vb.cuwps or []) if any(c.values())]
        props = [37, 48, 59, 2600, 3, [False] * 5, [True] * 5 + [False], [True] * 6 + [False], False, 0]
        for idx in free[:1] + free[-1:] + free[4:5] + used[:1]:
            for order in ([0, 1], [1, 0], [0, 1, 0]):
                out.append((f"{label}:equal-cuwp-twins-carry{idx}-order{''.join(map(str, order))}", base,
                            {"pool": {"locs": [[1, 1, 2, 2, None, None, [True] * 6]], "switches": [],
                                      "cuwps": [props + [None], props + [idx]]},
                             "ops": [_trigs(_cuwp_acts(order))]}))
        lfree = [i + 1 for i, l in enumerate(vb.locs) if not any(l.values()) and i + 1 != 64]
        for idx in lfree[:1] + lfree[-1:]:
            for order in ([0, 1], [1, 0]):
                out.append((f"{label}:equal-loc-twins-carry{idx}-order{''.join(map(str, order))}", base,
                            {"pool": {"locs": [[5, 6, 70, 80, "twin", None, [True] * 6], [5, 6, 70, 80, "twin", idx, [True] * 6]],
                                      "switches": [], "cuwps": []},
                             "ops": [_trigs(_loc_acts(order))]}))
    return out


def upus_leftover_cases():
    """base maps as editors leave them (unit-property slots holding data that UPUS flags as unused, two of them with equal
    contents) to which a trigger is added that uses an index-less unit-property set equal to those slots: whichever slot the
    save refers to must be flagged as used"""
    out = []
    for k in range(3):
        base = SC.MapGen(random.Random(400 + k), "editor", nloc=255, all_sections=True, ntrig=1, upus_zero=True, cuwp_twins=True,
                         identical_twins=True, uprp_prefilled=(k == 1)).build()
        v = SC.SpecView(base)
        slots = [tuple(sorted(c.items())) for c in (v.cuwps or [])]
        twins = [i for i, c in enumerate(slots) if any(x for _, x in c) and slots.count(c) >= 2]
        for i in twins[:2]:
            raw = v.cuwps[i]
            if raw["_padding"] or raw["_valid_special_properties_flags"] >= 64 or raw["_valid_unit_properties_flags"] >= 128 or raw["_hitpoints_percentage"] < 1:
                continue
            bits = lambda x, n_: [bool((x >> j) & 1) for j in range(n_)]  # noqa
            tw = [raw["_hitpoints_percentage"], raw["_shieldpoints_percentage"], raw["_energypoints_percentage"],
                  raw["_resource_amount"], raw["_units_in_hangar"], bits(raw["_flags"], 5),
                  bits(raw["_valid_special_properties_flags"], 6), bits(raw["_valid_unit_properties_flags"], 7),
                  bool((raw["_flags"] >> 5) & 1), raw["_padding"], None]
            out.append((f"upus-leftover:{k}:slot{i + 1}", base,
                        {"pool": {"locs": [[1, 1, 2, 2, None, None, [True] * 6]], "switches": [], "cuwps": [tw]},
                         "ops": [_trigs(_cuwp_acts([0]))]}))
    return out


def run(ck: vlib.Check):
    n = 80 if ck.tier == "quick" else 3000
    ck.rule = ("authored scenarios pushed to the format's limits on valid bases: 17..100 conditions / 65..100 actions, "
               "integers at and beyond every field's range (256, 65536, 2^32, 2^40), indices outside the slot ranges "
               "(0, 64, 65, 256, 1000), 300 new locations / 70 unit-property sets / 300 switches, empty player sets, "
               "empty triggers; plus a deterministic boundary family (last slot of each table pinned, one past it, slot 0; "
               "exactly-full and one-too-many counts of locations / unit-property sets / switches, on fixtures and on an "
               "empty synthetic map; equal unit-property sets / locations as distinct objects, one carrying an index); every output that is produced at all is checked by an independent structural validator "
               "(sizes, 2400-multiples, string offsets, every written id refers to an existing non-empty entry, UPUS "
               "agrees) — the alternative is an exception. Implementation vs extracted pipeline model byte for byte. "
               "Distinct = distinct (base, scenario).")
    drv_ok = RC.build_rich(ck, ["proofs/C11_proofs.vo"], "props/C11.v")
    rng = ck.rng
    bs = R.bases(rng, 3 if ck.tier == "quick" else 30, ck.tier)
    cases = []
    hows = {}
    fixed = [(n_, b) for n_, b in SC.fixtures() if "scx" in n_][:(1 if ck.tier == "quick" else 3)] + \
            [("synthetic-empty", SC.MapGen(random.Random(5), "editor", nloc=0, all_sections=True, ntrig=1).build()),
             ("synthetic-full-mrgn", SC.MapGen(random.Random(6), "editor", nloc=255, all_sections=True, ntrig=1, loc_density=1.0,
                                               uprp_prefilled=True, swnm_density=1.0).build())]
    for c in boundary_cases(fixed):
        cases.append(c)
        hows["boundary"] = hows.get("boundary", 0) + 1
    for i in range(n):
        label, base = bs[i % len(bs)]
        spec = A.gen_scenario(rng, base)
        how = degenerate(rng, base, spec)
        hows[how] = hows.get(how, 0) + 1
        cases.append((f"{label}#{i}:{how}", base, spec))
    impl = []
    outcomes = {"valid-output": 0, "raises": 0}
    for label, base, spec in cases:
        r = A.run_impl(base, spec)
        impl.append(r)
        ck.evaluations += 1
        ck.note_case(label + json.dumps(spec, sort_keys=True)[:1500])
        if r[0] == 0:
            outcomes["raises"] += 1
            continue
        problems = validator.validate(bytes(r[1]))
        if problems:
            ck.violation(f"{label}: the emitted CHK is not structurally valid: {problems[0]}",
                         {"kind": "invalid", "label": label, "base_hex": base.hex(), "spec": spec, "problems": problems[:5]}, True)
        else:
            outcomes["valid-output"] += 1
    for label, base, spec in handbuilt_cases(fixed) + equal_twin_cases(fixed) + upus_leftover_cases():
        r = A.run_impl(base, spec)
        ck.evaluations += 1
        ck.note_case(label)
        hows["handbuilt"] = hows.get("handbuilt", 0) + 1
        if r[0] == 0:
            outcomes["raises"] += 1
            continue
        problems = validator.validate(bytes(r[1]))
        if problems:
            ck.violation(f"{label}: the emitted CHK is not structurally valid: {problems[0]}",
                         {"kind": "invalid", "label": label, "base_hex": base.hex(), "spec": spec, "problems": problems[:5]}, True)
        else:
            outcomes["valid-output"] += 1
    # maps whose string table cannot be read to the end: implementation only (raise, or emit something valid)
    plain = SC.MapGen(random.Random(15), "editor", nloc=255, all_sections=True, ntrig=0, loc_density=0.0, swnm_density=0.0).build()
    for label, base, spec in unterminated_string_tables(plain):
        r = A.run_impl(base, spec)
        ck.evaluations += 1
        ck.note_case(label)
        hows["unterminated-str"] = hows.get("unterminated-str", 0) + 1
        if r[0] == 0:
            outcomes["raises"] += 1
            continue
        problems = validator.validate(bytes(r[1]))
        if problems:
            ck.violation(f"{label}: the emitted CHK is not structurally valid: {problems[0]}",
                         {"kind": "invalid", "label": label, "base_hex": base.hex(), "spec": spec, "problems": problems[:5]}, True)
        else:
            outcomes["valid-output"] += 1
    known, _ = vlib.load_known_findings(PROP)
    known_keys = {f["key"]: f["text"] for f in known}
    seen = False
    for label, base, spec in empty_object_cases(fixed[:2]):
        r = A.run_impl(base, spec)
        ck.evaluations += 1
        ck.note_case(label)
        hows["empty-content"] = hows.get("empty-content", 0) + 1
        if r[0] == 0:
            outcomes["raises"] += 1
            continue
        problems = validator.validate(bytes(r[1]))
        if problems and "content-empty-object-referenced" in known_keys and all("is empty" in p or "disagrees with unit-property slot" in p for p in problems):
            seen = True
        elif problems:
            ck.violation(f"{label}: the emitted CHK is not structurally valid: {problems[0]}",
                         {"kind": "invalid", "label": label, "base_hex": base.hex(), "spec": spec, "problems": problems[:5]}, True)
        else:
            outcomes["valid-output"] += 1
    if seen:
        ck.known("key=content-empty-object-referenced " + known_keys["content-empty-object-referenced"])
    # the same hand-built and boundary scenarios under an optimising interpreter (python -O: assert statements are not
    # executed).  Whatever is emitted there must be valid too; the library validates with assert in places, which is the
    # recorded finding asserts-as-validation-under-O.
    import subprocess
    ojobs = [(l_, b_, s_) for l_, b_, s_ in handbuilt_cases(fixed[:2]) + boundary_cases(fixed[-2:-1])]
    p = subprocess.run(["/venv/bin/python", "-O", str(Path(__file__).resolve().parent / "o_worker.py")],
                       input=json.dumps([{"base_hex": b_.hex(), "spec": s_} for _, b_, s_ in ojobs]),
                       stdout=subprocess.PIPE, stderr=subprocess.DEVNULL, text=True, timeout=1800)
    try:
        ores = json.loads(p.stdout.strip().splitlines()[-1])
    except Exception:  # noqa
        ores = []
        ck.oblige("harness:optimised-interpreter", False, p.stdout[-300:])
    seen_o = []
    for (label, base, spec), r in zip(ojobs, ores):
        ck.evaluations += 1
        ck.note_case("O:" + label)
        hows["python -O"] = hows.get("python -O", 0) + 1
        if r[0] == 0:
            continue
        problems = validator.validate(bytes.fromhex(r[1]))
        if problems:
            if "asserts-as-validation-under-O" in known_keys:
                seen_o.append(f"{label}: {problems[0]}")
            else:
                ck.violation(f"under python -O, {label}: the emitted CHK is not structurally valid: {problems[0]}",
                             {"kind": "invalid", "optimised": True, "label": label, "base_hex": base.hex(), "spec": spec,
                              "problems": problems[:5]}, True)
    if seen_o:
        ck.known("key=asserts-as-validation-under-O " + known_keys["asserts-as-validation-under-O"])
        ck.extra["invalid_output_under_python_O"] = seen_o[:10]
    # a section object of the DECODED layer built by hand with a list of the wrong length (a trigger holding 17 conditions),
    # placed in a rich map: the decoded-level encoders write whatever lists they are given
    def decoded_wrong_count():
        import dataclasses
        from richchk.io.chk.chk_io import ChkIo
        from richchk.io.richchk.richchk_io import RichChkIo
        from richchk.model.chk.trig.decoded_trig_section import DecodedTrigSection
        from richchk.model.richchk.trig.rich_trig_section import RichTrigSection
        d = ChkIo().decode_chk_binary_data(fixed[0][1])
        t = next(s_ for s_ in d.decoded_chk_sections if isinstance(s_, DecodedTrigSection))
        t0 = dataclasses.replace(t.triggers[0], _conditions=list(t.triggers[0].conditions) + [t.triggers[0].conditions[0]])
        t2 = dataclasses.replace(t, _triggers=[t0] + list(t.triggers[1:]))
        r = RichChkIo().decode_chk(d)
        r2 = dataclasses.replace(r, _chk_sections=[t2 if isinstance(s_, RichTrigSection) else s_ for s_ in r.chk_sections])
        return list(ChkIo().encode_chk_to_bytes(RichChkIo().encode_chk(r2)))
    r = vlib.impl_result(decoded_wrong_count)
    ck.evaluations += 1
    ck.note_case("decoded-trig-17-conditions")
    if r[0] == 1:
        problems = validator.validate(bytes(r[1]))
        if problems and "decoded-section-lists-unchecked" in known_keys:
            ck.known("key=decoded-section-lists-unchecked " + known_keys["decoded-section-lists-unchecked"])
        elif problems:
            ck.violation(f"a hand-built decoded TRIG section with a 17-condition trigger inside a rich map is written: {problems[0]}",
                         {"kind": "decoded-wrong-count", "problems": problems[:3]}, True)
    ck.extra["degenerations"] = hows
    ck.extra["outcomes"] = outcomes
    if drv_ok:
        R.correspond(ck, cases, impl, "degenerate scenario -> saved bytes or exception: implementation vs model")
    ck.sample({"case": cases[0][0], "result": "raises" if impl[0][0] == 0 else "valid"})
    ck.sample({"case": cases[-1][0], "result": "raises" if impl[-1][0] == 0 else "valid"})


def replay(path: str) -> int:
    rp = json.loads(Path(path).read_text())
    print("replaying:", rp.get("what"))
    if rp.get("kind") == "invalid":
        base = bytes.fromhex(rp["base_hex"])
        r = A.run_impl(base, rp["spec"])
        problems = validator.validate(bytes(r[1])) if r[0] == 1 else []
        print("still failing: " + problems[0] if problems else "no longer failing")
        return 1 if problems else 0
    print(json.dumps(rp, indent=1)[:3000])
    return 1
