"""Translator: slot-table constants (live module values) -> coq/gen/GenConsts.v"""
from __future__ import annotations

import importlib

from vlib import GEN_HEADER, TranslatorError, coq_N

OUTPUTS = ["gen/GenConsts.v"]

CONSTS = [
    ("richchk.model.chk.mrgn.mrgn_constants", "MAX_LOCATIONS"),
    ("richchk.model.chk.mrgn.mrgn_constants", "ANYWHERE_LOCATION_ID"),
    ("richchk.model.chk.uprp.uprp_constants", "MAX_CUWP_SLOTS"),
    ("richchk.model.chk.swnm.swnm_constants", "MAX_SWITCHES"),
    ("richchk.model.chk.wav.wav_constants", "MAX_WAV_FILES"),
    ("richchk.model.chk.wav.wav_constants", "UNUSED_WAV_STRING_ID"),
    ("richchk.model.chk.unis.unis_constants", "NUM_UNITS"),
    ("richchk.model.chk.unis.unis_constants", "NUM_SCM_WEAPONS"),
]
CLASS_CONSTS = [
    ("richchk.transcoder.richchk.transcoders.richchk_mrgn_transcoder", "RichChkMrgnTranscoder", "_MAX_LOCATIONS",
     "MRGN_TRANSCODER_MAX_LOCATIONS"),
    ("richchk.transcoder.richchk.transcoders.richchk_trig_transcoder", "RichChkTrigTranscoder",
     "_NUM_CONDITIONS_PER_TRIGGER", "NUM_CONDITIONS_PER_TRIGGER"),
    ("richchk.transcoder.richchk.transcoders.richchk_trig_transcoder", "RichChkTrigTranscoder",
     "_NUM_ACTIONS_PER_TRIGGER", "NUM_ACTIONS_PER_TRIGGER"),
]


def values():
    out = {}
    for mod, name in CONSTS:
        v = getattr(importlib.import_module(mod), name, None)
        if not isinstance(v, int) or isinstance(v, bool) or v < 0:
            raise TranslatorError(f"{mod}.{name} is not a natural number: {v!r}")
        out[name] = v
    for mod, cls, attr, name in CLASS_CONSTS:
        v = getattr(getattr(importlib.import_module(mod), cls), attr, None)
        if not isinstance(v, int) or isinstance(v, bool) or v < 0:
            raise TranslatorError(f"{cls}.{attr} is not a natural number: {v!r}")
        out[name] = v
    return out


def generate():
    txt = GEN_HEADER.format(tool="translate_consts.py") + "From Coq Require Import NArith.\n\n"
    for k, v in values().items():
        txt += f"Definition {k} : N := {coq_N(v)}.\n"
    return {"gen/GenConsts.v": txt}


if __name__ == "__main__":
    print(generate()["gen/GenConsts.v"])
