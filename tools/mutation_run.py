"""Run registered checks against the seeded breaking changes kept under /verif/seeded/<name>/.

For each seeded change: confirm that the patch applies to the clean /repo tree, that its demonstration
exits 0 on the clean tree, apply it (git apply; never committed), confirm that the 200 tests still
pass and that the demonstration now exits 1, run the chosen checks, record their exit codes and
VIOLATION lines in seeded/<name>/result.json, and undo the patch (git checkout -- .).

usage: mutation_run.py [name ...] [--checks C01,C02|own|all] [--tier quick]
"""
from __future__ import annotations

import json
import os
import subprocess
import sys
import time
from pathlib import Path

ROOT = Path(__file__).resolve().parent.parent
SEEDED = ROOT / "seeded"
REPO = os.environ.get("VERIF_REPO", "/repo")
PY = "/venv/bin/python"
ALL = [f"C{i:02d}" for i in range(1, 20)]


def sh(cmd, **kw):
    return subprocess.run(cmd, shell=True, capture_output=True, text=True, **kw)


def clean():
    st = sh(f"git -C {REPO} status --porcelain").stdout.strip()
    return st == ""


def demo(d: Path):
    env = dict(os.environ, PYTHONPATH=f"{REPO}/src", PYTHONHASHSEED="0")
    r = subprocess.run([PY, str(d / "demo.py")], capture_output=True, text=True, env=env, cwd="/tmp", timeout=900)
    return r.returncode, (r.stdout + r.stderr)[-1500:]


def main():
    args = [a for a in sys.argv[1:] if not a.startswith("--")]
    opts = {a.split("=")[0]: (a.split("=") + [""])[1] for a in sys.argv[1:] if a.startswith("--")}
    names = args or sorted(p.name for p in SEEDED.iterdir() if (p / "patch.diff").exists())
    tier = opts.get("--tier", "quick")
    if not clean():
        print("refusing: /repo working tree is not clean")
        return 2
    for name in names:
        d = SEEDED / name
        meta = json.loads((d / "meta.json").read_text()) if (d / "meta.json").exists() else {}
        own = meta.get("property") or name[:3]
        which = opts.get("--checks", "own")
        checks = ALL if which == "all" else ([own] if which == "own" else which.split(","))
        res = {"name": name, "property": own, "tier": tier, "when": time.strftime("%Y-%m-%d %H:%M:%S")}
        if sh(f"git -C {REPO} apply --check {d / 'patch.diff'}").returncode != 0:
            res["error"] = "patch does not apply to the clean tree"
            print(name, res["error"])
            (d / "result.json").write_text(json.dumps(res, indent=1))
            continue
        res["demo_clean_rc"], _ = demo(d)
        sh(f"git -C {REPO} apply {d / 'patch.diff'}")
        try:
            t = sh(f"cd {REPO} && {PY} -m pytest -q -p no:cacheprovider --timeout=900 --continue-on-collection-errors 2>&1 | tail -1")
            res["tests"] = t.stdout.strip()
            res["demo_patched_rc"], res["demo_patched_tail"] = demo(d)
            res["checks"] = {}
            for c in checks:
                t0 = time.time()
                r = sh(f"cd {ROOT} && {PY} tools/check.py {c} --tier {tier}", timeout=7200)
                lines = [l for l in r.stdout.splitlines() if l.startswith(("VIOLATION", "KNOWN-FINDING"))]
                res["checks"][c] = {"rc": r.returncode, "seconds": round(time.time() - t0, 1),
                                    "violations": [l for l in lines if l.startswith("VIOLATION")][:6],
                                    "tail": r.stdout.splitlines()[-6:]}
                # keep the replay files the check wrote for this mutation
                for l in lines:
                    if "replay=" in l:
                        rp = l.split("replay=")[1].split()[0]
                        if os.path.exists(rp):
                            (d / "replays").mkdir(exist_ok=True)
                            sh(f"cp {rp} {d / 'replays'}/")
                print(name, c, "rc", r.returncode, (res["checks"][c]["violations"] or ["-"])[0][:160], flush=True)
        finally:
            sh(f"git -C {REPO} checkout -- .")
        res["caught_by"] = [c for c, v in res.get("checks", {}).items() if v["rc"] == 1 and v["violations"]]
        (d / "result.json").write_text(json.dumps(res, indent=1))
        print(name, "tests:", res.get("tests"), "demo clean/patched:", res.get("demo_clean_rc"), res.get("demo_patched_rc"),
              "caught_by:", res["caught_by"], flush=True)
    assert clean(), "/repo not clean after the run"
    return 0


if __name__ == "__main__":
    sys.exit(main())
