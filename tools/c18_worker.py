#!/venv/bin/python
"""Fresh interpreter: import exactly one module, dump sys.modules (package part) and the four registries."""
import importlib, json, logging, sys
logging.disable(logging.CRITICAL)
sys.path.insert(0, sys.argv[2])
mod = sys.argv[1]
FACT = {
    0: ("richchk.transcoder.chk.chk_section_transcoder_factory", "ChkSectionTranscoderFactory"),
    1: ("richchk.transcoder.richchk.richchk_section_transcoder_factory", "RichChkSectionTranscoderFactory"),
    2: ("richchk.transcoder.richchk.transcoders.trig.rich_trigger_action_transcoder_factory", "RichTriggerActionTranscoderFactory"),
    3: ("richchk.transcoder.richchk.transcoders.trig.rich_trigger_condition_transcoder_factory", "RichTriggerConditionTranscoderFactory"),
}


def keynum(v):
    if hasattr(v, "id") and isinstance(v.id, int):
        return v.id
    return int.from_bytes(v.value.encode("ascii")[:8].ljust(8, b"\0"), "little")


try:
    importlib.import_module(mod)
except Exception as ex:  # noqa
    print(json.dumps({"raised": type(ex).__name__, "msg": str(ex)[:200]}))
    sys.exit(0)
loaded = sorted(m for m in sys.modules if m == "richchk" or m.startswith("richchk."))
regs = {}
for r, (fm, cls) in FACT.items():
    if fm in sys.modules:
        t = getattr(sys.modules[fm], cls).transcoders
        fac = getattr(sys.modules[fm], cls)
        bad = []
        # every "is this id served" answer first, for all ids, before anything is built (building may repair the answer)
        names = [n for n in dir(fac) if n.startswith("supports_")] + [n for n in dir(fac) if n.startswith("make_")]
        for name in names:
            for k in t:
                if True:
                    try:
                        ans = getattr(fac, name)(k)
                        if name.startswith("supports_") and ans is not True:
                            bad.append([keynum(k), name, "answers " + repr(ans)])
                        if name.startswith("make_") and ans is None:
                            bad.append([keynum(k), name, "returns None"])
                    except Exception as ex:  # noqa
                        bad.append([keynum(k), name, "raises " + type(ex).__name__])
        regs[r] = {"keys": sorted(keynum(k) for k in t), "dispatch_bad": bad[:8]}
    else:
        regs[r] = None
print(json.dumps({"loaded": loaded, "regs": regs}))
