"""An independent structural validator of CHK bytes (format description only): what C11 demands of every output."""
from __future__ import annotations

import scenarios as SC
import sections as S

FIXED = {b"UNIS": (4048,), b"UNIx": (4168,), b"UPRP": (1280,), b"UPUS": (64,), b"SWNM": (1024,), b"WAV ": (2048,),
         b"MRGN": (1280, 5100)}


def validate(b: bytes):
    """list of problems (empty = valid)"""
    problems = []
    chunks, i = [], 0
    while i < len(b):
        if i + 8 > len(b):
            problems.append("trailing bytes that are not a chunk header")
            break
        sz = int.from_bytes(b[i + 4:i + 8], "little")
        if i + 8 + sz > len(b):
            problems.append(f"chunk {b[i:i+4]!r} claims {sz} bytes but only {len(b) - i - 8} remain")
            break
        chunks.append((b[i:i + 4], b[i + 8:i + 8 + sz]))
        i += 8 + sz
    by = {}
    for n, p in chunks:
        by.setdefault(n, []).append(p)
        if n in FIXED and len(p) not in FIXED[n]:
            problems.append(f"{n!r} has size {len(p)}, the format mandates {FIXED[n]}")
        if n == b"TRIG" and len(p) % 2400:
            problems.append(f"TRIG has size {len(p)}, not a whole number of 2400-byte triggers")
    if problems:
        return problems
    nstr = 0
    for p in by.get(b"STR ", []):
        if len(p) < 2:
            problems.append("STR shorter than its count field")
            continue
        nstr = int.from_bytes(p[:2], "little")
        if 2 + 2 * nstr > len(p):
            problems.append("STR offset table runs past the section")
            continue
        for k in range(nstr):
            off = int.from_bytes(p[2 + 2 * k:4 + 2 * k], "little")
            if off >= len(p) or p.find(b"\0", off) < 0:
                problems.append(f"string {k + 1}: offset {off} does not lie inside the section / reach a NUL")
                break
    if problems:
        return problems
    v = SC.SpecView(b)

    def sid_ok(s):
        return s == 0 or 1 <= s <= nstr
    for k, l in enumerate(v.locs):
        if not sid_ok(l["_string_id"]):
            problems.append(f"location {k + 1} names string {l['_string_id']} which does not exist")
    if v.swnm:
        for k, s in enumerate(v.swnm):
            if not sid_ok(s):
                problems.append(f"switch {k} names string {s} which does not exist")
    for nm in (b"UNIS", b"UNIx"):
        for p in by.get(nm, []):
            u = S.spec_parse(S.SPEC_FULL[nm.decode()], p, 0)[0]
            for k, s in enumerate(u["_unit_string_ids"]):
                if not sid_ok(s):
                    problems.append(f"{nm.decode()} unit {k} names string {s} which does not exist")
    for p in by.get(b"WAV ", []):
        for k in range(512):
            s = int.from_bytes(p[4 * k:4 * k + 4], "little")
            if not sid_ok(s):
                problems.append(f"sound slot {k} names string {s} which does not exist")
    spec = SC.spec_tables()
    used_cuwps = set()
    for p in by.get(b"TRIG", []):
        for ti, t in enumerate(S.spec_parse(S.SPEC_FULL["TRIG"], p, 0)[0]["_triggers"]):
            for part, kind, idf in (("_conditions", "conditions", "_condition_id"), ("_actions", "actions", "_action_id")):
                for ei, rec in enumerate(t[part]):
                    row = spec[kind].get(rec[idf])
                    if row is None:
                        continue
                    for a, c, e, f in row["args"]:
                        x = rec[f]
                        if c in ("str", "strvalue") and not sid_ok(x):
                            problems.append(f"trigger {ti} {kind}[{ei}] {a}: string {x} does not exist")
                        if c in ("loc", "locthrow") and not (1 <= x <= len(v.locs) and any(v.locs[x - 1].values())):
                            problems.append(f"trigger {ti} {kind}[{ei}] {a}: location {x} does not exist / is empty")
                        if c == "cuwp":
                            used_cuwps.add(x)
                            if not (v.cuwps and 1 <= x <= 64 and any(v.cuwps[x - 1].values())):
                                problems.append(f"trigger {ti} {kind}[{ei}] {a}: unit-property slot {x} does not exist / is empty")
                        if c == "switch" and not (0 <= x <= 255):
                            problems.append(f"trigger {ti} {kind}[{ei}] {a}: switch {x} out of range")
    if v.cuwps and b"UPUS" in by:
        up = by[b"UPUS"][-1]
        for k in range(64):
            if bool(up[k]) != any(v.cuwps[k].values()):
                problems.append(f"UPUS[{k}] = {up[k]} disagrees with unit-property slot {k + 1}")
                break
    return problems
