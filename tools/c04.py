"""C04 — authored rich content reaches the file unchanged."""
from __future__ import annotations

import json
from pathlib import Path

import authoring as A
import richchecks as R
import richcorr as RC
import scenarios as SC
import vlib

PROP = "C04"


def shared_weapon_witness():
    """Goliath (3) and Goliath turret (4) carry the same two weapons.  Both are customised (damage 10), then the Goliath's
    weapon damage is set to 55: its setting is replaced in place, the turret's stale copy comes later in the section and
    is what the file holds."""
    import random
    import scenarios as SC
    base = SC.MapGen(random.Random(7), "editor", nloc=255, all_sections=True, ntrig=1).build()
    uw = R._unit_weapons()
    def unit(uid, dmg):
        return {"id": uid, "hp": 256 * 100, "sh": 1, "ar": 1, "bt": 1, "mi": 1, "ga": 1, "name": None,
                "weapons": [[w, dmg, dmg + 1] for w in uw[uid] if w < 130], "default": False}
    a, b = next((x, y) for x in sorted(uw) for y in sorted(uw) if x < y and uw[x] and set(uw[x]) & set(uw[y]))
    return base, {"pool": {"locs": [], "cuwps": [], "switches": []},
                  "ops": [["upsert_units", "UNIx", [unit(a, 10)]], ["upsert_units", "UNIx", [unit(b, 10)]],
                          ["upsert_units", "UNIx", [unit(a, 55)]]]}


def duplicated_section_cases():
    """a unit-settings section that occurs twice (legal; the game reads the last copy), then the ordinary upsert flow:
    the authored values must be in every copy (and in particular in the last)"""
    import random
    out = []
    for seed, sec in ((3, "UNIx"), (4, "UNIS")):
        base = SC.MapGen(random.Random(seed), "editor", nloc=255, all_sections=True, ntrig=1).build()
        ch = SC.chunks_of(base)
        dup = [c for c in ch if c[0] == sec.encode()]
        if not dup:
            continue
        base2 = b"".join(n + len(p).to_bytes(4, "little") + p for n, p in ch + [(b"XTRA", b"x"), dup[0]])
        uw = R._unit_weapons()
        nw = 100 if sec == "UNIS" else 130
        unit = {"id": 0, "hp": 256 * 77, "sh": 5, "ar": 6, "bt": 7, "mi": 8, "ga": 9, "name": "authored unit name",
                "weapons": [[w, 41, 42] for w in uw[0] if w < nw], "default": False}
        out.append((f"duplicated-{sec}", base2, {"pool": {"locs": [], "cuwps": [], "switches": []},
                                                 "ops": [["upsert_units", sec, [unit]]]}))
    return out


def two_step_cases(bases):
    """ONE new index-less location and ONE new nameless switch, referred to by triggers that are added in two separate
    editor calls: both references must denote the same slot"""
    out = []
    for label, base in bases[:2]:
        spec = {"pool": {"locs": [[3, 4, 50, 60, None, None, [True] * 6]], "cuwps": [], "switches": [[None, None]]},
                "ops": [["add_triggers", [{"conds": [], "players": [0], "acts": [
                            ["rich", 10, [["_location", [2, 0]]], [False] * 5],
                            ["rich", 13, [["_switch", [8, 0]], ["_switch_action", [1, 4]]], [False] * 5]]}]],
                        ["add_triggers", [{"conds": [], "players": [1], "acts": [
                            ["rich", 10, [["_location", [2, 0]]], [False] * 5],
                            ["rich", 13, [["_switch", [8, 0]], ["_switch_action", [1, 5]]], [False] * 5]]}]]]}
        out.append((f"{label}:two-step", base, spec))
    return out


def slot_boundary_cases(rng):
    """allocation around the reserved slot 64 ("Anywhere") on a table that does NOT define it: one authored location
    carrying a number just behind it (65, 66) or in front of it (63), and enough index-less ones to use up every free
    slot below 64 and go on behind it"""
    import random
    import scenarios as SC
    out = []
    for carried, density in ((65, 0.0), (66, 0.05), (63, 0.0), (65, 0.3)):
        base = SC.MapGen(random.Random(rng.randrange(10 ** 9)), "editor", nloc=255, no_anywhere=True, all_sections=True,
                         loc_density=density, ntrig=1).build()
        locs = [[10, 10, 20 + carried, 30, None, carried, [False] * 6]]
        locs += [[100 + k, 200, 300 + k, 400 + k, None, None, [True] * 6] for k in range(68)]
        trigs = []
        for lo in range(0, len(locs), 60):
            trigs.append({"conds": [], "players": [0],
                          "acts": [["rich", 10, [["_location", [2, k]]], [False] * 5] for k in range(lo, min(lo + 60, len(locs)))]})
        out.append((f"slot-boundary:carried{carried}:density{density}", base,
                    {"pool": {"locs": locs, "cuwps": [], "switches": []}, "ops": [["add_triggers", trigs]]}))
    return out


def run(ck: vlib.Check):
    n = 80 if ck.tier == "quick" else 3000
    ck.rule = ("authored scenarios on the scx fixture and synthetic bases: triggers using every supported condition / "
               "action type (chosen uniformly over the 51 + 22 types) with boundary integers, every enum member, new and "
               "existing locations / unit-property sets / switches shared among triggers, strings new / duplicate / "
               "already present, raw unsupported entries; unit settings upserted for random units; interleaved "
               "save+reload; allocation across the reserved location slot 64 on tables that do not define it. The saved bytes are read by an independent reader (format description + the Coq spec "
               "tables) and every authored argument must be found, through its reference, in the spec's field. "
               "Implementation vs extracted pipeline model byte for byte. Distinct = distinct (base, scenario).")
    drv_ok = RC.build_rich(ck, ["proofs/C04_proofs.vo"], "props/C04.v")
    rng = ck.rng
    bs = R.bases(rng, 4 if ck.tier == "quick" else 40, ck.tier)
    cases = []
    for i in range(n):
        label, base = bs[i % len(bs)]
        cases.append((f"{label}#{i}", base, A.gen_scenario(rng, base)))
    known, _ = vlib.load_known_findings(PROP)
    known_keys = {f["key"]: f["text"] for f in known}
    cases = duplicated_section_cases() + two_step_cases(bs) + slot_boundary_cases(rng) + cases
    impl = []
    types_seen = {"actions": set(), "conditions": set()}
    outcomes = {"ok": 0, "raises": 0}
    for label, base, spec in cases:
        r = A.run_impl(base, spec)
        impl.append(r)
        ck.evaluations += 1
        ck.note_case(label + json.dumps(spec, sort_keys=True)[:2000])
        for t in R.authored_triggers(spec):
            for part, kind in (("conds", "conditions"), ("acts", "actions")):
                for e in t[part]:
                    if e[0] == "rich":
                        types_seen[kind].add(e[1])
        if r[0] == 0:
            outcomes["raises"] += 1
            continue
        outcomes["ok"] += 1
        keys = set()
        bad = R.c04_oracle(base, spec, bytes(r[1]), keys)
        if not bad and not keys <= set(known_keys):
            bad = "difference of the kind " + ", ".join(sorted(keys)) + ", which is not a recorded finding"
        if bad:
            ck.violation(f"{label}: {bad}", {"kind": "authored", "label": label, "base_hex": base.hex(), "spec": spec,
                                             "detail": bad}, True)
    # recorded finding: replayed on the implementation, printed only while it still fails
    if "shared-weapon-stale-copy" in known_keys:
        base, spec = shared_weapon_witness()
        r = A.run_impl(base, spec)
        keys = set()
        if r[0] == 1 and R.c04_oracle(base, spec, bytes(r[1]), keys) is None and "shared-weapon-stale-copy" in keys:
            ck.known("key=shared-weapon-stale-copy " + known_keys["shared-weapon-stale-copy"])
    ck.extra["types_exercised"] = {k: len(v) for k, v in types_seen.items()}
    ck.extra["outcomes"] = outcomes
    if drv_ok:
        R.correspond(ck, cases, impl, "authored scenario -> saved bytes: implementation vs extracted pipeline model",
                     judge=lambda b, s, out: R.c04_oracle(b, s, out))
    ck.sample({"case": cases[0][0], "ops": [o[0] for o in cases[0][2]["ops"]], "pool": {k: len(v) for k, v in cases[0][2]["pool"].items()}})
    ck.sample({"case": cases[-1][0], "spec": json.loads(json.dumps(cases[-1][2]))["ops"][0][0]})


def replay(path: str) -> int:
    rp = json.loads(Path(path).read_text())
    print("replaying:", rp.get("what"))
    if rp.get("kind") == "authored":
        base = bytes.fromhex(rp["base_hex"])
        r = A.run_impl(base, rp["spec"])
        bad = R.c04_oracle(base, rp["spec"], bytes(r[1])) if r[0] == 1 else None
        print("still failing: " + bad if bad else "no longer failing")
        return 1 if bad else 0
    if rp.get("kind") == "raised-on-representable":
        r = A.run_impl(bytes.fromhex(rp["base_hex"]), rp["spec"])
        print("still failing: the call raises" if r[0] == 0 else "no longer failing")
        return 1 if r[0] == 0 else 0
    print(json.dumps(rp, indent=1)[:3000])
    return 1
