"""C04 — authored rich content reaches the file unchanged."""
from __future__ import annotations

import json
from pathlib import Path

import authoring as A
import richchecks as R
import richcorr as RC
import scenarios as SC
import vlib

PROP = "C04"


def run(ck: vlib.Check):
    n = 80 if ck.tier == "quick" else 3000
    ck.rule = ("authored scenarios on the scx fixture and synthetic bases: triggers using every supported condition / "
               "action type (chosen uniformly over the 51 + 22 types) with boundary integers, every enum member, new and "
               "existing locations / unit-property sets / switches shared among triggers, strings new / duplicate / "
               "already present, raw unsupported entries; unit settings upserted for random units; interleaved "
               "save+reload. The saved bytes are read by an independent reader (format description + the Coq spec "
               "tables) and every authored argument must be found, through its reference, in the spec's field. "
               "Implementation vs extracted pipeline model byte for byte. Distinct = distinct (base, scenario).")
    drv_ok = RC.build_rich(ck, ["proofs/C04_proofs.vo"], "props/C04.v")
    rng = ck.rng
    bs = R.bases(rng, 4 if ck.tier == "quick" else 40, ck.tier)
    cases = []
    for i in range(n):
        label, base = bs[i % len(bs)]
        cases.append((f"{label}#{i}", base, A.gen_scenario(rng, base)))
    impl = []
    types_seen = {"actions": set(), "conditions": set()}
    outcomes = {"ok": 0, "raises": 0}
    for label, base, spec in cases:
        r = A.run_impl(base, spec)
        impl.append(r)
        ck.evaluations += 1
        ck.note_case(label + json.dumps(spec, sort_keys=True)[:2000])
        for t in R.authored_triggers(spec):
            for part, kind in (("conds", "conditions"), ("acts", "actions")):
                for e in t[part]:
                    if e[0] == "rich":
                        types_seen[kind].add(e[1])
        if r[0] == 0:
            outcomes["raises"] += 1
            continue
        outcomes["ok"] += 1
        bad = R.c04_oracle(base, spec, bytes(r[1]))
        if bad:
            ck.violation(f"{label}: {bad}", {"kind": "authored", "label": label, "base_hex": base.hex(), "spec": spec,
                                             "detail": bad}, True)
    ck.extra["types_exercised"] = {k: len(v) for k, v in types_seen.items()}
    ck.extra["outcomes"] = outcomes
    if drv_ok:
        R.correspond(ck, cases, impl, "authored scenario -> saved bytes: implementation vs extracted pipeline model",
                     judge=lambda b, s, out: R.c04_oracle(b, s, out))
    ck.sample({"case": cases[0][0], "ops": [o[0] for o in cases[0][2]["ops"]], "pool": {k: len(v) for k, v in cases[0][2]["pool"].items()}})
    ck.sample({"case": cases[-1][0], "spec": json.loads(json.dumps(cases[-1][2]))["ops"][0][0]})


def replay(path: str) -> int:
    rp = json.loads(Path(path).read_text())
    print("replaying:", rp.get("what"))
    if rp.get("kind") == "authored":
        base = bytes.fromhex(rp["base_hex"])
        r = A.run_impl(base, rp["spec"])
        bad = R.c04_oracle(base, rp["spec"], bytes(r[1])) if r[0] == 1 else None
        print("still failing: " + bad if bad else "no longer failing")
        return 1 if bad else 0
    if rp.get("kind") == "raised-on-representable":
        r = A.run_impl(bytes.fromhex(rp["base_hex"]), rp["spec"])
        print("still failing: the call raises" if r[0] == 0 else "no longer failing")
        return 1 if r[0] == 0 else 0
    print(json.dumps(rp, indent=1)[:3000])
    return 1
