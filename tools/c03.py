"""C03 — unedited maps are rewritten byte-identically; saving is idempotent."""
from __future__ import annotations

import json
import random
from pathlib import Path

import findings
import richcorr as RC
import scenarios as SC
import vlib
from vlib import T

PROP = "C03"
# witnesses of the recorded findings (replayed on the implementation every run)
WITNESSES = {
    "mrgn-64-slots": lambda: dict(SC.fixtures())["test/resources/test-chkjson-scm.chk"],
    "upus-recomputed": lambda: dict(SC.fixtures())["test/resources/demon_lore_yatapi_test.chk"],
    "orphan-weapons-zeroed": lambda: SC.MapGen(random.Random(11), "editor", nloc=255, all_sections=True,
                                               orphan_weapons=True).build(),
    "empty-optional-section-appended": lambda: SC.MapGen(random.Random(14), "editor", nloc=255, all_sections=True, ntrig=1,
                                                         without=("SWNM", "UPRP", "UPUS")).build(),
    "swnm-empty-name-zeroed": lambda: SC.MapGen(random.Random(12), "editor", nloc=255, all_sections=True, near_texts=False,
                                                swnm_density=0.0, swnm_empty_ref=True).build(),
}


def idempotence_witness(kind="owner byte", slot=5):
    base = SC.MapGen(random.Random(13), "editor", nloc=255, all_sections=True).build()
    return findings.with_uprp_slot(base, slot, findings.DROPPED_ONLY_SLOTS[kind])


def gen_cases(rng, n):
    cases = []
    for name, b in SC.fixtures():
        cases.append(("fixture:" + name, b, "editor"))
    # boundary family of the "is this slot used" tests: records that are non-zero ONLY in fields the rich model drops
    for kind in findings.DROPPED_ONLY_SLOTS:
        for slot in (0, 5, 63):
            cases.append((f"dropped-only:{kind}:{slot}", idempotence_witness(kind, slot), "wild"))
    for i in range(n):
        form = "editor" if i % 3 else "wild"
        opts = dict(nloc=255, all_sections=True) if form == "editor" else {}
        if form == "editor" and i % 7 == 0:
            opts["uprp_prefilled"] = True
        opts.update([{}, {"interior_ids": 1.0}, {"header_ptr": True}, {"interior_ids": 1.0, "header_ptr": True}, {}][i % 5])
        if i % 4 == 1:
            opts["degenerate_locs"] = True
        if i % 3 == 2:
            opts["interleaved_ids"] = True
        if i % 2 == 0:
            opts["anywhere_flags"] = True
        cases.append((f"gen:{form}:{i}", SC.MapGen(rng, form, **opts).build(), form))
    return cases


def run(ck: vlib.Check):
    n = 60 if ck.tier == "quick" else 1500
    ck.rule = ("editor-form maps written byte by byte from the format description (all sections present, 255-slot MRGN, "
               "editor-prefilled UPRP, consistent UPUS, references using the last id of their text, no gaps, reserved "
               "bits clear, every supported / unsupported / unknown entry kind) + the repository fixtures: "
               "save(load(b)) must equal b; for ALL decodable maps incl. non-canonical ('wild') ones a second cycle must "
               "reproduce the first byte for byte. Implementation vs extracted pipeline model on every case. "
               "Distinct = distinct map bytes.")
    drv_ok = RC.build_rich(ck, ["proofs/C03_proofs.vo"], "props/C03.v")
    rng = ck.rng
    cases = gen_cases(rng, n)
    known, _ = vlib.load_known_findings(PROP)
    known_keys = {f["key"]: f["text"] for f in known}
    seen_keys = set()
    impl = []
    dist = {"editor": 0, "wild": 0, "identical": 0, "raises": 0}
    for label, b, form in cases:
        r = RC.impl_load_save(b)
        impl.append(r)
        ck.evaluations += 1
        ck.note_case(label + ":" + str(len(b)) + ":" + str(hash(b)))
        dist[form] += 1
        if r[0] == 0:
            dist["raises"] += 1
            continue
        wm = SC.wav_meta_of(b)
        if wm:
            rw = RC.impl_load_save(b, wm)
            ck.evaluations += 1
            if rw != r:
                what = "raises" if rw[0] == 0 else "; ".join(RC.chunk_diff(bytes(r[1]), bytes(rw[1]))[:2])
                ck.violation(f"{label}: saving the unedited map WITH sound metadata (as the MPQ save does) differs from "
                             f"saving it without: {what}",
                             {"kind": "wavmeta", "label": label, "input_hex": b.hex() if len(b) < 400000 else None,
                              "wav_meta": wm}, True)
        out = bytes(r[1])
        if out == b:
            dist["identical"] += 1
        elif form == "editor":
            keys, unexplained = findings.explain(b, out)
            if unexplained or not keys <= set(known_keys):
                ck.violation(f"{label}: an editor-form map is not rewritten byte-identically: {unexplained[:3] or sorted(keys)}",
                             {"kind": "identity", "label": label, "input_hex": b.hex() if len(b) < 400000 else None,
                              "differences": unexplained, "finding_keys": sorted(keys)}, True)
                continue
            seen_keys |= keys
        # idempotence for every map that decodes
        r2 = RC.impl_load_save(out)
        if r2 != [1, list(out)]:
            key = findings.explain_idempotence(out, bytes(r2[1])) if r2[0] == 1 else None
            if key in known_keys:
                seen_keys.add(key)
                continue
            what = "raises" if r2[0] == 0 else "; ".join(RC.chunk_diff(out, bytes(r2[1]))[:3])
            ck.violation(f"{label}: a second load/save cycle does not reproduce the first: {what}",
                         {"kind": "idempotence", "label": label, "input_hex": b.hex() if len(b) < 400000 else None}, True)
    ck.extra["case_distribution"] = dist
    # recorded findings: replay their witnesses; print KNOWN-FINDING only while they still fail
    for key, text in known_keys.items():
        if key in WITNESSES:
            b = WITNESSES[key]()
            r = RC.impl_load_save(b)
            if r[0] == 1 and bytes(r[1]) != b and key in findings.explain(b, bytes(r[1]))[0]:
                ck.known(f"key={key} {text}")
        elif key == "uprp-slot-dropped-fields-only":
            r = RC.impl_load_save(idempotence_witness())
            r2 = RC.impl_load_save(bytes(r[1])) if r[0] == 1 else r
            if r[0] == 1 and r2[0] == 1 and r2 != r and findings.explain_idempotence(bytes(r[1]), bytes(r2[1])) == key:
                ck.known(f"key={key} {text}")
    if drv_ok:
        small = [(l, b) for (l, b, _), r in zip(cases, impl)]
        got = vlib.run_model("Rich", [f"(1 {T(b)})" for _, b in small])
        mism = [i for i, (g, r) in enumerate(zip(got, impl)) if g != (T(r) if r[0] == 1 else f"(0 {r[1]})")
                and not (g.startswith("(0") and r[0] == 0)]
        ck.corr_count("save(load(b)): implementation vs extracted pipeline model, byte for byte", len(small), len(mism))
        if mism:
            i = mism[0]
            d = RC.chunk_diff(bytes(impl[i][1]), bytes(vlib.parse_tree(got[i])[1])) if impl[i][0] == 1 and got[i].startswith("(1") else [got[i][:80]]
            ck.notes.append(f"first mismatch {small[i][0]}: {d[:3]}")
        ck.sample({"case": cases[0][0], "bytes": len(cases[0][1]), "identical": impl[0] == [1, list(cases[0][1])]})
        ck.sample({"case": cases[-1][0], "bytes": len(cases[-1][1]), "result": "raises" if impl[-1][0] == 0 else "ok"})


def replay(path: str) -> int:
    rp = json.loads(Path(path).read_text())
    print("replaying:", rp.get("what"))
    if rp.get("input_hex"):
        b = bytes.fromhex(rp["input_hex"])
        r = RC.impl_load_save(b)
        if rp.get("kind") == "wavmeta":
            bad = RC.impl_load_save(b, rp["wav_meta"]) != r
            print("still failing" if bad else "no longer failing")
            return 1 if bad else 0
        if rp["kind"] == "identity":
            bad = r[0] == 1 and bytes(r[1]) != b
        else:
            out = bytes(r[1]) if r[0] == 1 else b""
            bad = r[0] == 1 and RC.impl_load_save(out) != [1, list(out)]
        print("still failing" if bad else "no longer failing")
        return 1 if bad else 0
    print(json.dumps(rp, indent=1)[:3000])
    return 1
