"""Small functions with known mutation behaviour, used to validate translator + checker against what
Python really does: each is run on fresh arguments under deep snapshots (does it change an argument?)
and translated and checked (does the ownership checker accept it?).  Accepted => must not mutate."""
import copy
import dataclasses


@dataclasses.dataclass
class Box:
    items: list
    name: str = "b"

    @property
    def contents(self):
        return self.items

    @property
    def contents_copy(self):
        return list(self.items)


def s01_append_to_arg(xs, v):
    xs.append(v)


def s02_copy_then_append(xs, v):
    ys = list(xs)
    ys.append(v)
    return ys


def s03_alias_then_append(xs, v):
    ys = xs
    ys.append(v)
    return ys


def s04_comprehension_copy(xs, v):
    ys = [x for x in xs]
    ys.append(v)
    return ys


def s05_attr_alias(box, v):
    ys = box.items
    ys.append(v)


def s06_property_alias(box, v):
    ys = box.contents
    ys.append(v)


def s07_property_copy(box, v):
    ys = box.contents_copy
    ys.append(v)
    return ys


def s08_nested_element(xss, v):
    for xs in xss:
        xs.append(v)


def s09_shallow_copy_nested(xss, v):
    ys = list(xss)
    ys[0].append(v)
    return ys


def s10_deepcopy_nested(xss, v):
    ys = copy.deepcopy(xss)
    ys[0].append(v)
    return ys


def s11_dict_setitem(d, k, v):
    d[k] = v


def s12_dict_copy_set(d, k, v):
    e = dict(d)
    e[k] = v
    return e


def s13_setattr(box, v):
    box.name = v


def s14_augassign_list(xs, v):
    xs += [v]


def s15_augassign_local_int(xs):
    n = 0
    for x in xs:
        n += 1
    return n


def s16_sorted_pure(xs):
    return sorted(xs)


def s17_sort_inplace(xs):
    xs.sort()


def _fill(dst, src):
    for s in src:
        dst.append(s)


def s18_helper_fills_fresh(xs, v):
    ys = []
    _fill(ys, xs)
    return ys


def s19_helper_fills_arg(xs, v):
    _fill(xs, [v])


def s20_ternary_alias(xs, flag, v):
    ys = xs if flag else []
    ys.append(v)


def s21_or_alias(xs, v):
    ys = xs or []
    ys.append(v)


def s22_pop(xs):
    return xs.pop()


def s23_del_item(xs):
    del xs[0]


def _get(box):
    return box.items


def s24_helper_returns_alias(box, v):
    ys = _get(box)
    ys.append(v)


def s25_try_handler(d, k, v):
    try:
        return d[k]
    except KeyError:
        d[k] = v
        return v


def s26_lambda_key(xs):
    return max(xs, key=lambda x: x)


def s27_dict_get_alias(d, k, v):
    ys = d.get(k)
    ys.append(v)


def s28_items_loop(d, v):
    for k, ys in d.items():
        ys.append(v)


def s30_set_add(s, v):
    s.add(v)


def s31_extend(xs, ys):
    xs.extend(ys)


def s32_slice_copy(xs, v):
    ys = xs[:]
    ys.append(v)
    return ys


def s33_update_loop_var(boxes, v):
    for b in boxes:
        b.items = [v]


def s35_while_pop(xs):
    while xs:
        xs.pop()


def s36_new_box_shares_list(box, v):
    return Box(box.items, v)


def s37_new_box_then_append(box, v):
    nb = Box(box.items, v)
    nb.items.append(v)
    return nb


def s38_new_box_copy_then_append(box, v):
    nb = Box(list(box.items), v)
    nb.items.append(v)
    return nb


def s39_reverse_copy(xs):
    ys = [x for x in xs]
    ys.reverse()
    return ys


def s40_reverse_inplace(xs):
    xs.reverse()
    return xs


def s41_tuple_unpack_alias(pair, v):
    a, b = pair
    a.append(v)


def s42_enumerate_alias(xss, v):
    for i, xs in enumerate(xss):
        xs.append(i)


def s43_zip_alias(xss, yss):
    for xs, ys in zip(xss, yss):
        xs.append(ys)


def s44_sorted_alias(xss, v):
    for xs in sorted(xss):
        xs.append(v)


def s45_conditional_break(xs, v):
    out = []
    for x in xs:
        if x == v:
            break
        out.append(x)
    return out


def s46_continue_then_mutate(xss, v):
    for xs in xss:
        if not xs:
            continue
        xs.append(v)


def s47_setdefault(d, k):
    return d.setdefault(k, [])


def s48_nested_comprehension_alias(xss, v):
    ys = [xs for xs in xss if xs]
    for y in ys:
        y.append(v)


def s49_clear_copy(d):
    e = d.copy()
    e.clear()
    return e


def s50_clear_arg(d):
    d.clear()


ARGS = {
    "s01_append_to_arg": lambda: ([1, 2], 3),
    "s02_copy_then_append": lambda: ([1, 2], 3),
    "s03_alias_then_append": lambda: ([1, 2], 3),
    "s04_comprehension_copy": lambda: ([1, 2], 3),
    "s05_attr_alias": lambda: (Box([1]), 3),
    "s06_property_alias": lambda: (Box([1]), 3),
    "s07_property_copy": lambda: (Box([1]), 3),
    "s08_nested_element": lambda: ([[1], [2]], 3),
    "s09_shallow_copy_nested": lambda: ([[1], [2]], 3),
    "s10_deepcopy_nested": lambda: ([[1], [2]], 3),
    "s11_dict_setitem": lambda: ({1: 2}, 3, 4),
    "s12_dict_copy_set": lambda: ({1: 2}, 3, 4),
    "s13_setattr": lambda: (Box([1]), "z"),
    "s14_augassign_list": lambda: ([1], 2),
    "s15_augassign_local_int": lambda: ([1, 2],),
    "s16_sorted_pure": lambda: ([2, 1],),
    "s17_sort_inplace": lambda: ([2, 1],),
    "s18_helper_fills_fresh": lambda: ([1, 2], 3),
    "s19_helper_fills_arg": lambda: ([1, 2], 3),
    "s20_ternary_alias": lambda: ([1], True, 2),
    "s21_or_alias": lambda: ([1], 2),
    "s22_pop": lambda: ([1, 2],),
    "s23_del_item": lambda: ([1, 2],),
    "s24_helper_returns_alias": lambda: (Box([1]), 2),
    "s25_try_handler": lambda: ({1: 2}, 3, 4),
    "s26_lambda_key": lambda: ([1, 3, 2],),
    "s27_dict_get_alias": lambda: ({1: [2]}, 1, 3),
    "s28_items_loop": lambda: ({1: [2]}, 3),
    "s30_set_add": lambda: ({1}, 2),
    "s31_extend": lambda: ([1], [2]),
    "s32_slice_copy": lambda: ([1], 2),
    "s33_update_loop_var": lambda: ([Box([1])], 2),
    "s35_while_pop": lambda: ([1, 2],),
    "s36_new_box_shares_list": lambda: (Box([1]), "n"),
    "s37_new_box_then_append": lambda: (Box([1]), "n"),
    "s38_new_box_copy_then_append": lambda: (Box([1]), "n"),
    "s39_reverse_copy": lambda: ([1, 2],),
    "s40_reverse_inplace": lambda: ([1, 2],),
    "s41_tuple_unpack_alias": lambda: (([1], [2]), 3),
    "s42_enumerate_alias": lambda: ([[1], [2]], 3),
    "s43_zip_alias": lambda: ([[1]], [[2]]),
    "s44_sorted_alias": lambda: ([[2], [1]], 3),
    "s45_conditional_break": lambda: ([1, 2, 3], 2),
    "s46_continue_then_mutate": lambda: ([[], [1]], 2),
    "s47_setdefault": lambda: ({1: [2]}, 3),
    "s48_nested_comprehension_alias": lambda: ([[1], []], 2),
    "s49_clear_copy": lambda: ({1: 2},),
    "s50_clear_arg": lambda: ({1: 2},),
}
