"""Translator: every registered trigger action / condition transcoder -> coq/gen/GenTrig.v
(+ build/trig_tables.json): which rich argument is read from / written to which record field,
through which codec.

Accepted subset of _decode (fail-closed):
    assert ... ; v = <expr> (inlined) ; if ...: <logging only> ; return Model(_kw=<src>, ...)
    <src> ::= D.f | RichChkEnumTranscoder.decode_enum(D.f, E) | ctx.rich_mrgn_lookup.get_location_by_id[_or_throw](D.f)
            | ctx.rich_str_lookup.get_string_by_id(D.f)[.value] | ctx.rich_cuwp_lookup.get_cuwp_by_id(D.f)
            | self._decode_switch(D.f, ctx) (helper of the recognised shape) | AiScriptTranscoder.decode(D.f)
of _encode:
    assert ... ; v = <expr> ; return DecodedTriggerAction|DecodedTriggerCondition(_f=<dst>, ...)
    <dst> ::= 0 | R.a | RichChkEnumTranscoder.encode_enum(R.a) | ectx.rich_mrgn_lookup.get_id_by_location[_or_throw](R.a)
            | ectx.rich_str_lookup.get_id_by_string(R.a | RichString(_value=R.a)) | ectx.rich_cuwp_lookup.get_id_by_cuwp(R.a)
            | ectx.rich_swnm_lookup.get_id_by_switch(R.a) | AiScriptTranscoder.encode(R.a)
            | R.action_id().id | M.condition_id().id | self._determine_wav_duration(R, ectx)
"""
from __future__ import annotations

import ast
import inspect
import json
import sys
import textwrap

from vlib import BUILD, GEN_HEADER, TranslatorError, coq_list, coq_N, coq_string

OUTPUTS = ["gen/GenTrig.v"]

SWITCH_HELPER = ("maybe_switch = rich_chk_decode_context.rich_swnm_lookup.get_switch_by_id(switch_id)\n"
                 "if not maybe_switch:\n    return RichSwitch(_custom_name=RichNullString(), _index=switch_id)\n"
                 "return maybe_switch")


def err(msg, node=None):
    if node is not None:
        msg += " :: " + ast.unparse(node)[:200]
    raise TranslatorError(msg)


def _strip(body):
    return [s for s in body if not (isinstance(s, ast.Expr) and isinstance(s.value, ast.Constant))]


def _is_logging_only(stmts):
    for s in stmts:
        if not (isinstance(s, ast.Expr) and isinstance(s.value, ast.Call) and isinstance(s.value.func, ast.Attribute)
                and s.value.func.attr in ("warning", "info", "debug", "error")):
            return False
    return True


def getter_field(cls, attr: str) -> str:
    """property attr of live class cls -> the dataclass field its getter returns"""
    p = None
    for k in cls.__mro__:
        if attr in vars(k):
            p = vars(k)[attr]
            break
    if not isinstance(p, property):
        err(f"{cls.__name__}.{attr} is not a property")
    src = textwrap.dedent(inspect.getsource(p.fget))
    fn = ast.parse(src).body[0]
    body = _strip(fn.body)
    if (len(body) == 1 and isinstance(body[0], ast.Return) and isinstance(body[0].value, ast.Attribute)
            and isinstance(body[0].value.value, ast.Name) and body[0].value.value.id == "self"):
        return body[0].value.attr
    err(f"getter {cls.__name__}.{attr} is not `return self._x`")


class One:
    def __init__(self, kind: str, key, tcls):
        self.kind = kind  # "action" | "condition"
        self.key = key
        self.tcls = tcls
        self.mod = sys.modules[tcls.__module__]
        src = inspect.getsource(self.mod)
        tree = ast.parse(src)
        self.node = next((n for n in tree.body if isinstance(n, ast.ClassDef) and n.name == tcls.__name__), None)
        if self.node is None:
            err(f"class {tcls.__name__} not found in its module")
        self.decoded_cls_name = "DecodedTriggerAction" if kind == "action" else "DecodedTriggerCondition"
        self.decoded_cls = getattr(self.mod, self.decoded_cls_name)
        self.id_method = "action_id" if kind == "action" else "condition_id"

    def method(self, name):
        for f in self.node.body:
            if isinstance(f, ast.FunctionDef) and f.name == name:
                return f
        err(f"{self.tcls.__name__}.{name} missing")

    def body_env(self, fn):
        env, ret, asserts = {}, None, []
        for st in _strip(fn.body):
            if isinstance(st, ast.Assert):
                asserts.append(ast.unparse(st.test))
                continue
            if isinstance(st, ast.If) and not st.orelse and _is_logging_only(st.body):
                continue
            if isinstance(st, ast.Expr) and _is_logging_only([st]):
                continue
            if isinstance(st, ast.Assign) and len(st.targets) == 1 and isinstance(st.targets[0], ast.Name):
                env[st.targets[0].id] = st.value
                continue
            if isinstance(st, ast.AnnAssign) and isinstance(st.target, ast.Name) and st.value is not None:
                env[st.target.id] = st.value
                continue
            if isinstance(st, ast.Return):
                if ret is not None:
                    err("two returns", st)
                ret = st.value
                continue
            err(f"{self.tcls.__name__}.{fn.name}: statement outside the accepted subset", st)
        if ret is None:
            err(f"{self.tcls.__name__}.{fn.name}: no return")
        return env, ret, asserts

    @staticmethod
    def inline(e, env, depth=0):
        while isinstance(e, ast.Name) and e.id in env and depth < 10:
            e = env[e.id]
            depth += 1
        return e

    # ---- decode ----
    def decode_table(self):
        fn = self.method("_decode")
        params = [a.arg for a in fn.args.args if a.arg != "self"]
        if len(params) != 2:
            err("_decode signature")
        D, ctx = params
        env, ret, asserts = self.body_env(fn)
        ret = self.inline(ret, env)
        if not (isinstance(ret, ast.Call) and isinstance(ret.func, ast.Name) and not ret.args):
            err("_decode does not return Model(kw=...)", ret)
        model_name = ret.func.id
        rows = []
        for kw in ret.keywords:
            if kw.arg is None:
                err("**kwargs")
            rows.append((kw.arg,) + self.decode_src(self.inline(kw.value, env), D, ctx, env))
        return model_name, rows, asserts

    def dfield(self, e, D):
        if isinstance(e, ast.Attribute) and isinstance(e.value, ast.Name) and e.value.id == D:
            return getter_field(self.decoded_cls, e.attr)
        return None

    def decode_src(self, e, D, ctx, env):
        f = self.dfield(e, D)
        if f:
            return ("raw", "", f)
        if isinstance(e, ast.Attribute) and e.attr == "value":
            inner = self.decode_src(self.inline(e.value, env), D, ctx, env)
            if inner[0] == "str":
                return ("strvalue", "", inner[2])
            err("`.value` on something that is not a string lookup", e)
        if isinstance(e, ast.Call):
            fn = ast.unparse(e.func)
            args = [self.inline(a, env) for a in e.args]
            if fn == "RichChkEnumTranscoder.decode_enum" and len(args) == 2 and isinstance(args[1], ast.Name):
                f = self.dfield(args[0], D)
                if f:
                    return ("enum", args[1].id, f)
            simple = {
                f"{ctx}.rich_mrgn_lookup.get_location_by_id": "loc",
                f"{ctx}.rich_mrgn_lookup.get_location_by_id_or_throw": "locthrow",
                f"{ctx}.rich_str_lookup.get_string_by_id": "str",
                f"{ctx}.rich_cuwp_lookup.get_cuwp_by_id": "cuwp",
                "AiScriptTranscoder.decode": "aiscript",
            }
            if fn in simple and len(args) == 1 and not e.keywords:
                f = self.dfield(args[0], D)
                if f:
                    return (simple[fn], "", f)
            if fn == "self._decode_switch" and not args and {k.arg for k in e.keywords} == {
                    "switch_id", "rich_chk_decode_context"}:
                kwd = {k.arg: self.inline(k.value, env) for k in e.keywords}
                args = [kwd["switch_id"], kwd["rich_chk_decode_context"]]
            if fn == "self._decode_switch" and len(args) == 2:
                h = self.method("_decode_switch")
                got = "\n".join(ast.unparse(s) for s in _strip(h.body))
                if got != SWITCH_HELPER:
                    err("_decode_switch left the recognised shape")
                f = self.dfield(args[0], D)
                if f and isinstance(args[1], ast.Name) and args[1].id == ctx:
                    return ("switch", "", f)
        err(f"{self.tcls.__name__}._decode: argument source outside the accepted subset", e)

    # ---- encode ----
    def encode_table(self, model_cls):
        fn = self.method("_encode")
        params = [a.arg for a in fn.args.args if a.arg != "self"]
        if len(params) != 2:
            err("_encode signature")
        R, ectx = params
        env, ret, asserts = self.body_env(fn)
        ret = self.inline(ret, env)
        if not (isinstance(ret, ast.Call) and isinstance(ret.func, ast.Name) and ret.func.id == self.decoded_cls_name
                and not ret.args):
            err("_encode does not return the decoded record constructor", ret)
        rows = []
        for kw in ret.keywords:
            rows.append((kw.arg,) + self.encode_dst(self.inline(kw.value, env), R, ectx, env, model_cls))
        return rows, asserts

    def rattr(self, e, R, model_cls):
        if isinstance(e, ast.Attribute) and isinstance(e.value, ast.Name) and e.value.id == R:
            return getter_field(model_cls, e.attr)
        return None

    def encode_dst(self, e, R, ectx, env, model_cls):
        if isinstance(e, ast.Constant) and e.value == 0 and not isinstance(e.value, bool):
            return ("zero", "")
        a = self.rattr(e, R, model_cls)
        if a:
            return ("raw", a)
        s = ast.unparse(e)
        if s == f"{R}.{self.id_method}().id" or s == f"{model_cls.__name__}.{self.id_method}().id":
            return ("ownid", "")
        if isinstance(e, ast.Call):
            fn = ast.unparse(e.func)
            args = [self.inline(x, env) for x in e.args]
            simple = {
                "RichChkEnumTranscoder.encode_enum": "enum",
                f"{ectx}.rich_mrgn_lookup.get_id_by_location": "loc",
                f"{ectx}.rich_mrgn_lookup.get_id_by_location_or_throw": "locthrow",
                f"{ectx}.rich_str_lookup.get_id_by_string": "str",
                f"{ectx}.rich_cuwp_lookup.get_id_by_cuwp": "cuwp",
                f"{ectx}.rich_swnm_lookup.get_id_by_switch": "switch",
                "AiScriptTranscoder.encode": "aiscript",
            }
            if fn in simple and len(args) == 1 and not e.keywords:
                a = self.rattr(args[0], R, model_cls)
                if a:
                    return (simple[fn], a)
                x = args[0]
                if (fn.endswith("get_id_by_string") and isinstance(x, ast.Call) and isinstance(x.func, ast.Name)
                        and x.func.id == "RichString" and not x.args and len(x.keywords) == 1
                        and x.keywords[0].arg == "_value"):
                    a = self.rattr(self.inline(x.keywords[0].value, env), R, model_cls)
                    if a:
                        return ("strvalue", a)
            if fn == "self._determine_wav_duration" and len(args) == 2:
                return ("wavduration", "")
        err(f"{self.tcls.__name__}._encode: field source outside the accepted subset", e)

    def table(self):
        model_name, dec, dasserts = self.decode_table()
        model_cls = getattr(self.mod, model_name, None)
        if model_cls is None:
            err(f"model class {model_name} not importable from the transcoder module")
        own = getattr(model_cls, self.id_method)().id
        enc, easserts = self.encode_table(model_cls)
        return {"key": self.key.id, "key_name": self.key._name_, "transcoder": self.tcls.__name__,
                "model": model_name, "own_id": own, "dec": [list(r) for r in dec], "enc": [list(r) for r in enc],
                "dec_asserts": dasserts, "enc_asserts": easserts}


def tables():
    from richchk.transcoder.richchk.transcoders.trig.rich_trigger_action_transcoder_factory import (
        RichTriggerActionTranscoderFactory as AF)
    from richchk.transcoder.richchk.transcoders.trig.rich_trigger_condition_transcoder_factory import (
        RichTriggerConditionTranscoderFactory as CF)
    acts = [One("action", k, v).table() for k, v in AF.transcoders.items()]
    conds = [One("condition", k, v).table() for k, v in CF.transcoders.items()]
    acts.sort(key=lambda r: r["key"])
    conds.sort(key=lambda r: r["key"])
    return acts, conds


def coq_codec(c, e):
    return {"raw": "CRaw", "enum": f"(CEnum {coq_string(e)})", "loc": "CLoc", "locthrow": "CLocThrow", "str": "CStr",
            "strvalue": "CStrValue", "cuwp": "CCuwp", "switch": "CSwitch", "aiscript": "CAiScript"}[c]


def enum_of(rows_dec, rich_field):
    for rf, c, e, f in rows_dec:
        if rf == rich_field and c == "enum":
            return e
    return ""


def coq_entry(r):
    dec = coq_list(f"({coq_string(rf)}, {coq_codec(c, e)}, {coq_string(f)})" for rf, c, e, f in r["dec"])
    enc_rows = []
    for f, c, a in r["enc"]:
        if c == "zero":
            src = "EZero"
        elif c == "ownid":
            src = "EOwnId"
        elif c == "wavduration":
            src = "EWavDuration"
        else:
            src = f"(EArg {coq_codec(c, enum_of(r['dec'], a))} {coq_string(a)})"
        enc_rows.append(f"({coq_string(f)}, {src})")
    return (f"{{| te_key := {coq_N(r['key'])}; te_model := {coq_string(r['model'])}; te_own_id := {coq_N(r['own_id'])};\n"
            f"     te_dec := {dec};\n     te_enc := {coq_list(enc_rows)} |}}")


def generate() -> dict[str, str]:
    acts, conds = tables()
    txt = GEN_HEADER.format(tool="translate_trig.py")
    txt += ("From Coq Require Import String NArith List.\nFrom RC Require Import model.TrigTable.\n"
            "Import ListNotations.\nLocal Open Scope string_scope.\n\n")
    txt += "Definition gen_action_table : list trig_entry :=\n  [" + ";\n   ".join(coq_entry(r) for r in acts) + "].\n\n"
    txt += "Definition gen_condition_table : list trig_entry :=\n  [" + ";\n   ".join(coq_entry(r) for r in conds) + "].\n"
    BUILD.mkdir(exist_ok=True)
    (BUILD / "trig_tables.json").write_text(json.dumps({"actions": acts, "conditions": conds}, indent=1))
    return {"gen/GenTrig.v": txt}


if __name__ == "__main__":
    a, c = tables()
    for r in a + c:
        print(r["key"], r["model"], r["own_id"])
        print("   dec:", [(x[0], x[1] + (":" + x[2] if x[2] else ""), x[3]) for x in r["dec"]])
        print("   enc:", [(x[0], x[1], x[2]) for x in r["enc"] if x[1] != "zero"])
