"""Translator: unit -> weapons table, UnitId / WeaponId member ids, and the field order of every rich trigger model
class (live dataclass introspection) -> coq/gen/GenRichTables.v"""
from __future__ import annotations

import dataclasses
import importlib
import json

from vlib import BUILD, GEN_HEADER, TranslatorError, coq_list, coq_N, coq_string

OUTPUTS = ["gen/GenRichTables.v"]


def unit_weapons():
    from richchk.model.richchk.unis.unit_id import UnitId
    from richchk.model.richchk.unis.unit_to_weapon_lookup import get_weapons_for_unit
    out = {}
    for u in UnitId:
        ws = get_weapons_for_unit(u)
        if not isinstance(ws, list):
            raise TranslatorError("get_weapons_for_unit does not return a list")
        out[u.id] = [w.id for w in ws]
    return out


def model_field_orders():
    """{(kind, key): [field names in dataclass order, without _flags]} for registered action / condition models"""
    import translate_trig
    acts, conds = translate_trig.tables()
    out = {}
    for kind, rows in (("a", acts), ("c", conds)):
        for r in rows:
            from richchk.transcoder.richchk.transcoders.trig import rich_trigger_action_transcoder_factory as AF
            from richchk.transcoder.richchk.transcoders.trig import rich_trigger_condition_transcoder_factory as CF
            reg = (AF.RichTriggerActionTranscoderFactory if kind == "a" else CF.RichTriggerConditionTranscoderFactory).transcoders
            tcls = next(v for k, v in reg.items() if k.id == r["key"])
            mod = importlib.import_module(tcls.__module__)
            mcls = getattr(mod, r["model"])
            fields = [f.name for f in dataclasses.fields(mcls)]
            if "_flags" not in fields:
                raise TranslatorError(f"{r['model']} has no _flags field")
            out[(kind, r["key"])] = fields
    return out


def generate():
    uw = unit_weapons()
    fo = model_field_orders()
    txt = GEN_HEADER.format(tool="translate_unitweapons.py")
    txt += "From Coq Require Import String NArith List.\nImport ListNotations.\nLocal Open Scope string_scope.\n\n"
    txt += "Definition gen_unit_weapons : list (N * list N) :=\n  " + coq_list(
        f"({coq_N(u)}, {coq_list(coq_N(w) for w in ws)})" for u, ws in sorted(uw.items())) + ".\n\n"
    for kind, nm in (("a", "gen_action_field_order"), ("c", "gen_condition_field_order")):
        txt += f"Definition {nm} : list (N * list string) :=\n  " + coq_list(
            f"({coq_N(k[1])}, {coq_list(coq_string(f) for f in fs)})" for k, fs in sorted(fo.items()) if k[0] == kind) + ".\n\n"
    BUILD.mkdir(exist_ok=True)
    (BUILD / "rich_tables.json").write_text(json.dumps({"unit_weapons": uw,
                                                         "fields": {f"{k[0]}{k[1]}": v for k, v in fo.items()}}))
    return {"gen/GenRichTables.v": txt}


if __name__ == "__main__":
    print(generate()["gen/GenRichTables.v"][:1500])
