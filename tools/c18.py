"""C18 — dispatch registries are complete from any entry point."""
from __future__ import annotations

import json
import subprocess
from concurrent.futures import ThreadPoolExecutor
from pathlib import Path

import vlib

PROP = "C18"
WORKER = str(Path(__file__).resolve().parent / "c18_worker.py")


def one(mod, optimised=False):
    p = subprocess.run(["/venv/bin/python"] + (["-O"] if optimised else []) + [WORKER, mod, str(vlib.SRC)], stdout=subprocess.PIPE,
                       stderr=subprocess.DEVNULL, text=True, timeout=300,
                       env={"PATH": "/usr/bin:/bin", "PYTHONHASHSEED": "0"})
    try:
        return json.loads(p.stdout.strip().splitlines()[-1])
    except Exception:
        return {"raised": "worker-failed", "msg": p.stdout[-200:]}


def run(ck: vlib.Check):
    ck.rule = ("every module of the package (packages included) imported as the first and only import of a fresh "
               "interpreter (one process per module); afterwards the package part of sys.modules and the keys of the "
               "four registries are compared with the model's final state, and the property is evaluated directly: "
               "the import succeeds and every registry whose factory module is loaded holds exactly the ids of the "
               "model classes. Exhaustive over the modules. Distinct = distinct entry module.")
    st = ck.regen(["imports"])
    with vlib.build_lock():
        mb = st.get("imports") is None and ck.build(["model/RunC18.vo"])
        drv_ok = False
        if mb:
            drv_ok, out = vlib.build_driver(PROP)
            ck.oblige("extraction+driver:C18", drv_ok, out)
        built = mb and ck.build(["proofs/C18_proofs.vo"], timeout=1500)
        props_ok = built and ck.check_props("props/C18.v")
    import translate_imports
    mods = sorted(translate_imports.all_modules())
    try:
        expected = translate_imports.expected_keys()
    except Exception as ex:  # noqa
        # the registry keys cannot be read off the source any more: the sweep still runs, judging what needs no expectation
        # (the import succeeds, every id a registry holds is served by its own dispatch functions)
        ck.oblige("expected-keys", False, repr(ex))
        expected = None
    if ck.tier == "quick":
        pass  # the sweep is cheap enough to be exhaustive in both tiers
    with ThreadPoolExecutor(max_workers=vlib.NCPU) as ex:
        results = list(ex.map(one, mods))
    ck.exhaustive = True
    n_loaded = {0: 0, 1: 0, 2: 0, 3: 0}
    for m, r in zip(mods, results):
        ck.evaluations += 1
        ck.note_case(m)
        if "raised" in r:
            ck.violation(f"importing {m} first raises {r['raised']}: {r.get('msg')}",
                         {"kind": "import", "module": m, "result": r}, True)
            continue
        for reg in range(4):
            got = r["regs"].get(str(reg))
            if got is None:
                continue
            n_loaded[reg] += 1
            if got.get("dispatch_bad"):
                ck.violation(f"importing {m} first: registry {reg} holds ids its own dispatch functions do not serve: "
                             f"{got['dispatch_bad'][:3]}",
                             {"kind": "dispatch", "module": m, "registry": reg, "bad": got["dispatch_bad"]}, True)
            if expected is not None and got["keys"] != sorted(expected[reg]):
                missing = sorted(set(expected[reg]) - set(got["keys"]))
                extra = sorted(set(got["keys"]) - set(expected[reg]))
                ck.violation(f"importing {m} first leaves registry {reg} incomplete: missing {missing[:6]} extra {extra[:6]}",
                             {"kind": "registry", "module": m, "registry": reg, "missing": missing, "extra": extra}, True)
    if expected is None:
        return
    # the same sweep under an optimising interpreter (python -O): registration must not depend on assert statements
    with ThreadPoolExecutor(max_workers=vlib.NCPU) as ex:
        results_o = list(ex.map(lambda m: one(m, True), mods))
    for m, r, ro in zip(mods, results, results_o):
        ck.evaluations += 1
        if "raised" in r:
            continue
        if "raised" in ro:
            ck.violation(f"under python -O, importing {m} first raises {ro['raised']}: {ro.get('msg')}",
                         {"kind": "import", "optimised": True, "module": m, "result": ro}, True)
            continue
        for reg in range(4):
            got = ro["regs"].get(str(reg))
            if got is not None and (got["keys"] != sorted(expected[reg]) or got.get("dispatch_bad")):
                missing = sorted(set(expected[reg]) - set(got["keys"]))
                ck.violation(f"under python -O, importing {m} first leaves registry {reg} incomplete: missing {missing[:6]}",
                             {"kind": "registry", "optimised": True, "module": m, "registry": reg, "missing": missing,
                              "extra": sorted(set(got["keys"]) - set(expected[reg]))}, True)
                break
    # other valid ways of deploying the same package: a directory whose name holds glob metacharacters, and a
    # sourceless (.pyc only) install; a sample of entry modules, the same requirement
    import shutil
    import tempfile
    with tempfile.TemporaryDirectory(dir=str(vlib.BUILD)) as td:
        variants = {}
        brack = Path(td) / "site-packages[py3]"
        shutil.copytree(vlib.SRC / "richchk", brack / "richchk", ignore=shutil.ignore_patterns("__pycache__", "logs"))
        # (the library creates richchk/util/logs on its first import with a check-then-mkdir; the entry modules below are
        # imported by parallel fresh interpreters, so the directory is made beforehand - two FIRST imports racing each other
        # is not what this property is about, see DESIGN 10.9)
        (brack / "richchk" / "util" / "logs").mkdir(parents=True, exist_ok=True)
        variants["a directory with glob characters"] = brack
        bare = Path(td) / "sourceless"
        shutil.copytree(vlib.SRC / "richchk", bare / "richchk", ignore=shutil.ignore_patterns("__pycache__", "logs"))
        subprocess.run(["/venv/bin/python", "-m", "compileall", "-b", "-q", str(bare / "richchk")], stdout=subprocess.DEVNULL,
                       stderr=subprocess.DEVNULL)
        for pyf in list((bare / "richchk").rglob("*.py")):
            pyf.unlink()
        (bare / "richchk" / "util" / "logs").mkdir(parents=True, exist_ok=True)
        variants["a sourceless (.pyc only) install"] = bare
        sample = [m for i, m in enumerate(mods) if i % 9 == 0 or "factory" in m or m.endswith(("chk_io", "richchk_io"))]
        for what, root in variants.items():
            def one_v(m, root=root):
                p = subprocess.run(["/venv/bin/python", WORKER, m, str(root)], stdout=subprocess.PIPE, stderr=subprocess.DEVNULL,
                                   text=True, timeout=300, env={"PATH": "/usr/bin:/bin", "PYTHONHASHSEED": "0"})
                try:
                    return json.loads(p.stdout.strip().splitlines()[-1])
                except Exception:
                    return {"raised": "worker-failed", "msg": p.stdout[-200:]}
            with ThreadPoolExecutor(max_workers=vlib.NCPU) as ex:
                res_v = list(ex.map(one_v, sample))
            for m, rv in zip(sample, res_v):
                ck.evaluations += 1
                if "raised" in rv:
                    ck.violation(f"deployed as {what}: importing {m} first raises {rv['raised']}: {rv.get('msg')}",
                                 {"kind": "deployment", "variant": what, "module": m, "result": rv}, True)
                    break
                bad = None
                for reg in range(4):
                    got = rv["regs"].get(str(reg))
                    if got is not None and got["keys"] != sorted(expected[reg]):
                        bad = (reg, sorted(set(expected[reg]) - set(got["keys"])))
                        break
                if bad:
                    ck.violation(f"deployed as {what}: importing {m} first leaves registry {bad[0]} incomplete: missing {bad[1][:6]}",
                                 {"kind": "deployment", "variant": what, "module": m, "registry": bad[0], "missing": bad[1]}, True)
                    break
    ck.extra["entry_points_after_which_each_registry_is_loaded"] = n_loaded
    ck.extra["modules"] = len(mods)
    if drv_ok:
        info = json.loads((vlib.BUILD / "imports.json").read_text())
        ids = {n: info["modules"][n]["id"] for n in info["names"]}
        rev = {v: k for k, v in ids.items()}
        lines = [f"(1 {ids[m]})" for m in mods if m in ids]
        got = vlib.run_model(PROP, lines, shards=4)
        mism = 0
        first = None
        for m, line, r in zip([m for m in mods if m in ids], got, results):
            t = vlib.parse_tree(line)
            if t[0] != 1:
                model = {"raised": t[1]}
            else:
                started, regs = t[1]
                model = {"loaded": sorted(rev[i] for i in started),
                         "regs": {str(k): (sorted(regs[k]) if regs[k] or info["factory_modules"] and
                                           any(fm in [rev[i] for i in started] for fm, rr in info["factory_modules"].items() if rr == k)
                                           else None) for k in range(4)}}
            impl = {"loaded": r.get("loaded"), "regs": {k: (v["keys"] if v else None) for k, v in (r.get("regs") or {}).items()}} \
                if "raised" not in r else {"raised": r["raised"]}
            if ("raised" in model) != ("raised" in impl) or ("raised" not in model and model != impl):
                mism += 1
                first = first or (m, json.dumps(model)[:300], json.dumps(impl)[:300])
        ck.corr_count("final interpreter state: impl vs extracted model of the import machinery", len(lines), mism)
        if first:
            ck.notes.append(f"first mismatch: {first}")
    ck.sample({"module": mods[5], "result": {"loaded": len(results[5].get("loaded", [])), "regs": {k: (len(v["keys"]) if v else None) for k, v in (results[5].get("regs") or {}).items()}}})
    ck.sample({"module": mods[-1], "result": {"loaded": len(results[-1].get("loaded", []))}})


def replay(path: str) -> int:
    rp = json.loads(Path(path).read_text())
    print("replaying:", rp.get("what"))
    if rp.get("kind") in ("import", "registry"):
        import translate_imports
        r = one(rp["module"], bool(rp.get("optimised")))
        if "raised" in r:
            print("still failing: import raises", r)
            return 1
        if rp["kind"] == "registry":
            exp = translate_imports.expected_keys()[rp["registry"]]
            got = r["regs"].get(str(rp["registry"]))
            bad = got is not None and got["keys"] != sorted(exp)
            print("still failing" if bad else "no longer failing")
            return 1 if bad else 0
        print("no longer failing")
        return 0
    print(json.dumps(rp, indent=1)[:3000])
    return 1
