#!/venv/bin/python
"""Runs authored scenarios in THIS interpreter (started with -O by the caller: assert statements are not executed).
stdin: JSON list of {"base_hex", "spec"}; stdout: JSON list of [1, output hex] | [0, error code]."""
import json, logging, sys
from pathlib import Path
sys.path.insert(0, str(Path(__file__).resolve().parent))
logging.disable(logging.CRITICAL)
import authoring as A  # noqa: E402

out = []
for job in json.loads(sys.stdin.read()):
    r = A.run_impl(bytes.fromhex(job["base_hex"]), job["spec"])
    out.append([1, bytes(r[1]).hex()] if r[0] == 1 else [0, r[1]])
print(json.dumps(out))
