#!/venv/bin/python
"""MANIFEST.setup_cmd: build the whole Coq development and every extracted driver from
files on disk (offline).  Checks rebuild incrementally afterwards."""
import glob
import os
import sys
from pathlib import Path

HERE = Path(__file__).resolve().parent
sys.path.insert(0, str(HERE))
os.environ.setdefault("PYTHONHASHSEED", "0")
import vlib  # noqa: E402


def main() -> int:
    gens = sorted(p.stem[len("translate_"):] for p in HERE.glob("translate_*.py"))
    st = vlib.regen(gens)
    for g, e in st.items():
        print("translate", g, "ok" if e is None else "FAILED: " + e)
    with vlib.build_lock():
        files = [f for f in vlib.all_v_files() if not f.startswith("extract/")]
        ok, out = vlib.coq_make([f[:-2] + ".vo" for f in files], timeout=3000)
        print(out[-3000:])
        if not ok:
            return 1
        rc = 0
        for ex in sorted((vlib.COQ / "extract").glob("Extract*.v")):
            prop = ex.stem[len("Extract"):]
            ok, out = vlib.build_driver(prop)
            print("driver", prop, "ok" if ok else "FAILED\n" + out[-2000:])
            rc |= 0 if ok else 1
    return rc


if __name__ == "__main__":
    sys.exit(main())
