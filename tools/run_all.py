#!/usr/bin/env python3
"""Run every registered quick (or thorough) check sequentially; summary at the end."""
import json, os, subprocess, sys, time
ROOT = os.path.dirname(os.path.dirname(os.path.abspath(__file__)))
tier = sys.argv[1] if len(sys.argv) > 1 else "quick"
only = sys.argv[2:] 
m = json.load(open(os.path.join(ROOT, "MANIFEST.json")))
bad = []
for c in m["checks"]:
    if only and c["property_id"] not in only:
        continue
    cmd = c["quick_cmd"] if tier == "quick" else c.get("thorough_cmd", c["quick_cmd"])
    t = time.time()
    p = subprocess.run(cmd, shell=True, cwd=ROOT, stdout=subprocess.PIPE, stderr=subprocess.STDOUT, text=True)
    tail = [l for l in p.stdout.splitlines() if l.startswith(("VIOLATION", "KNOWN-FINDING", "["))]
    print(c["property_id"], "rc=%d" % p.returncode, "%.0fs" % (time.time() - t), " | ".join(tail[-3:]))
    if p.returncode != 0:
        bad.append(c["property_id"])
print("FAILED:", bad)
sys.exit(1 if bad else 0)
