"""C04, C07, C10, C11 share one machinery: authored scenarios run on the implementation and on the extracted pipeline
model, and per-property oracles that read the saved bytes independently."""
from __future__ import annotations

import json
import random
import struct
from pathlib import Path

import authoring as A
import richcorr as RC
import scenarios as SC
import sections as S
import validator
import vlib


def bases(rng, n, tier):
    out = [("fixture:scx", dict(SC.fixtures())["test/resources/test-chkjson-scx.chk"])]
    for k in range(n):
        out.append((f"synthetic:{k}", SC.MapGen(random.Random(rng.randrange(10 ** 9)), "editor", nloc=255,
                                                all_sections=(k % 3 != 2), shuffle_order=(k % 4 == 1),
                                                **({"upus_zero": True, "cuwp_twins": True, "identical_twins": True, "uprp_prefilled": (k % 2 == 0)}
                                                   if k % 4 == 3 else {})).build()))
    return out


def correspond(ck, cases, impl, stream, judge=None):
    """judge(base, spec, bytes) -> None when the property's oracle accepts these saved bytes.  When the implementation
    raises on a scenario for which the model produces bytes the oracle accepts, the scenario itself is a failing input:
    the authored content is representable (here is a file holding it) and the call did not deliver it."""
    got = vlib.run_model("Rich", [A.scenario_tree(b, s) for _, b, s in cases], shards=min(vlib.NCPU, max(1, len(cases) // 8)))
    mism, first = 0, None
    for (label, b, s), r, g in zip(cases, impl, got):
        ok = (r[0] == 0 and g.startswith("(0")) or (r[0] == 1 and g == vlib.T(r))
        if not ok:
            mism += 1
            if judge is not None and r[0] == 0 and g.startswith("(1"):
                try:
                    verdict = judge(b, s, bytes(vlib.parse_tree(g)[1]))
                except Exception:  # noqa
                    verdict = "judge failed"
                if verdict is None:
                    ck.violation(f"{label}: the call raised (error class {r[1]}) although the authored content is representable: "
                                 f"the model's output holds every authored value in its field",
                                 {"kind": "raised-on-representable", "label": label, "base_hex": b.hex(), "spec": s}, True)
            if first is None:
                if r[0] == 1 and g.startswith("(1"):
                    first = (label, RC.chunk_diff(bytes(r[1]), bytes(vlib.parse_tree(g)[1]))[:3])
                else:
                    first = (label, f"impl {'ok' if r[0] else 'raises ' + str(r[1])} model {g[:60]}")
    ck.corr_count(stream, len(cases), mism)
    if first:
        ck.notes.append(f"first mismatch: {first}")


# ---- C04: what the independent reader must find for an authored entry ---------------------------------------------

def expected_arg(codec, v, spec, base_view, out_view):
    tag = v[0]
    if codec == "raw":
        return 0 if tag == 11 else v[1]
    if codec == "enum":
        return v[1]
    if codec in ("loc", "locthrow"):
        if tag == 2:
            l = spec["pool"]["locs"][v[1]]
            fl = sum((0 if on else 1) << i for i, on in enumerate(l[6]))
            return (l[0], l[1], l[2], l[3], l[4], fl)
        return base_view.location(v[1])
    if codec in ("str", "strvalue"):
        return None if tag == 5 else v[1]
    if codec == "cuwp":
        if tag == 6:
            c = spec["pool"]["cuwps"][v[1]]
            bits = lambda bs: sum((1 if on else 0) << i for i, on in enumerate(bs))  # noqa
            return tuple(sorted({"_valid_special_properties_flags": bits(c[6]) & 0x1F,
                                 "_valid_unit_properties_flags": bits(c[7]) & 0x3F,
                                 "_hitpoints_percentage": c[0], "_shieldpoints_percentage": c[1],
                                 "_energypoints_percentage": c[2], "_resource_amount": c[3], "_units_in_hangar": c[4],
                                 "_flags": (bits(c[5]) | (int(c[8]) << 5)) & 0x1F, "_padding": c[9]}.items()))
        return base_view.cuwp(v[1])
    if codec == "switch":
        if tag == 8:
            return ("new", spec["pool"]["switches"][v[1]][0])
        return (v[1], base_view.switch(v[1])[1])
    if codec == "aiscript":
        return struct.unpack("I", v[1].encode("ascii"))[0]
    raise ValueError(codec)


def authored_triggers(spec):
    out = []
    for op in spec["ops"]:
        if op[0] == "add_triggers":
            out += op[1]
    return out


def c04_oracle(base, spec, out, keys=None):
    """None or a description of the first authored value that did not reach the file; differences that are fully
    explained by a RECORDED finding are not reported, their keys are added to `keys`"""
    tables = SC.spec_tables()
    vb, vo = SC.SpecView(base), SC.SpecView(out)
    auth = authored_triggers(spec)
    numbers = {}
    if auth:
        first_trig = vo.by_name.get(b"TRIG", [b""])[0]
        trigs = S.spec_parse(S.SPEC_FULL["TRIG"], first_trig, 0)[0]["_triggers"]
        if len(trigs) < len(auth):
            return "fewer triggers in the file than were authored"
        got = trigs[len(trigs) - len(auth):]
        for ti, (t, g) in enumerate(zip(auth, got)):
            if g["_player_execution"]["_player_flags"] != [1 if p in t["players"] else 0 for p in range(27)]:
                return f"authored trigger {ti}: player flags differ"
            for part, kind, key, idf, fields in (("conds", "conditions", "_conditions", "_condition_id", SC.COND_FIELDS),
                                                 ("acts", "actions", "_actions", "_action_id", SC.ACTION_FIELDS)):
                recs = g[key]
                if any(r[idf] != 0 or any(r.values()) for r in recs[len(t[part]):]):
                    return f"authored trigger {ti}: entries after the authored {part} are not empty"
                for ei, (e, rec) in enumerate(zip(t[part], recs)):
                    if e[0] == "raw":
                        if [rec[f] for f in fields] != e[1]:
                            return f"authored trigger {ti} {part}[{ei}]: raw record changed"
                        continue
                    _, k, args, flags = e
                    if rec[idf] != k:
                        return f"authored trigger {ti} {part}[{ei}]: type byte {rec[idf]} instead of {k}"
                    want_flags = sum((1 if on else 0) << i for i, on in enumerate(flags))
                    if rec["_flags"] != want_flags:
                        return f"authored trigger {ti} {part}[{ei}]: flags {rec['_flags']} instead of {want_flags}"
                    view = vo.entry(rec, kind)
                    row = {a: (c, f) for a, c, en, f in tables[kind][k]["args"]}
                    for name, v in args:
                        c, f = row[name]
                        if v[0] == 8 and spec["pool"]["switches"][v[1]][1] is not None and spec["pool"]["switches"][v[1]][0] is None:
                            # an authored switch that carries a number and no name IS a reference to switch number k
                            v = [9, spec["pool"]["switches"][v[1]][1]]
                        if v[0] in (2, 8):
                            # one authored object (a pool entry) is ONE slot, however many triggers, added in however many
                            # steps, refer to it
                            numbers.setdefault((v[0], v[1]), set()).add(rec[f])
                        if c == "cuwp" and b"UPUS" in vo.by_name and len(vo.by_name[b"UPUS"][-1]) == 64 and 1 <= rec[f] <= 64 \
                                and vo.by_name[b"UPUS"][-1][rec[f] - 1] != 1:
                            return (f"authored trigger {ti} {part}[{ei}] (type {k}) argument {name}: the unit-property slot {rec[f]} it "
                                    f"refers to is flagged as unused in UPUS")
                        want = expected_arg(c, v, spec, vb, vo)
                        have = view.get(name)
                        if name == "_duration_ms" and v[0] == 11:
                            # no explicit duration: the file's true duration, from the WAV metadata given to the save
                            pth = next((x[1][1] for x in args if x[0] == "_path_to_wav_in_mpq"), None)
                            want = dict((p_, d_) for p_, d_ in (spec.get("wav_meta") or [])).get(pth)
                        if c == "switch":
                            have = ("new", have[1]) if v[0] == 8 else have
                            if v[0] != 8 and isinstance(have, (list, tuple)) and have[0] == want[0]:
                                # a reference to switch NUMBER k: the number is what was authored.  Its name is the
                                # base map's, unless k was unnamed there (the empty text counts as unnamed) - then an
                                # earlier step of the same scenario may have given slot k to an authored switch
                                if not want[1] and (not have[1] or have[1] in {sw[0] for sw in spec["pool"]["switches"]}):
                                    have = want
                        if c in ("loc", "locthrow") and isinstance(have, tuple):
                            have = tuple(have)
                        if isinstance(want, tuple) and isinstance(have, (list, tuple)):
                            have = tuple(tuple(x) if isinstance(x, list) else x for x in have)
                        if have != want:
                            return (f"authored trigger {ti} {part}[{ei}] (type {k}) argument {name}: the file's field "
                                    f"{f} denotes {have!r}, authored {want!r}")
                    if any(x for _, x in view["_unused"]):
                        return f"authored trigger {ti} {part}[{ei}]: a field the type does not use is not zero"
    if not any(o[0] == "save_reload" for o in spec["ops"]):
        for (tag, k), nums in numbers.items():
            if len(nums) > 1:
                what = "location" if tag == 2 else "switch"
                return f"the one authored {what} #{k} of the pool is referred to under {len(nums)} different numbers {sorted(nums)}"
    # unit settings
    last = {}
    for op in spec["ops"]:
        if op[0] == "upsert_units":
            for u in op[2]:
                last[(op[1], u["id"])] = u
    # a weapon's value is whatever the LAST authored setting that mentions it says
    final_w = {}
    for op in spec["ops"]:
        if op[0] == "upsert_units":
            for u in op[2]:
                for w in u["weapons"]:
                    final_w[(op[1], w[0])] = (w[1], w[2])
    # every section of that name must hold the authored values (a name may occur more than once: the game reads the last)
    for ((sec, uid), u), p in [(it, p_) for it in last.items() for p_ in vo.by_name.get(it[0][0].encode(), [])]:
        arr = S.spec_parse(S.SPEC_FULL[sec], p, 0)[0]
        checks = [("_unit_default_settings_flags", int(u["default"])), ("_unit_hitpoints", u["hp"]),
                  ("_unit_shieldpoints", u["sh"]), ("_unit_armorpoints", u["ar"]), ("_unit_build_times", u["bt"]),
                  ("_unit_mineral_costs", u["mi"]), ("_unit_gas_costs", u["ga"])]
        for f, want in checks:
            if arr[f][uid] != want:
                return f"{sec} unit {uid} {f}: file has {arr[f][uid]}, authored {want}"
        if vo.text(arr["_unit_string_ids"][uid]) != u["name"]:
            return f"{sec} unit {uid} name: file resolves to {vo.text(arr['_unit_string_ids'][uid])!r}, authored {u['name']!r}"
        for w, _d, _u in u["weapons"]:
            dmg, upg = final_w[(sec, w)]
            have = (arr["_unit_base_weapon_damages"][w], arr["_unit_upgrade_weapon_damages"][w])
            if have != (dmg, upg):
                carriers = [x for x, ws in _unit_weapons().items() if w in ws]
                if len(carriers) > 1:
                    # recorded finding: the weapon sits in the settings of several units; the copy held by a unit later
                    # in the section (customised in the base map or by an earlier step) is written last
                    if keys is not None:
                        keys.add("shared-weapon-stale-copy")
                    continue
                return f"{sec} unit {uid} weapon {w}: file has damage/upgrade {have}, authored {(dmg, upg)}"
    return None


_UW = None


def _unit_weapons():
    global _UW
    if _UW is None:
        from richchk.model.richchk.unis.unit_id import UnitId
        from richchk.model.richchk.unis.unit_to_weapon_lookup import get_weapons_for_unit
        _UW = {u.id: [w.id for w in get_weapons_for_unit(u)] for u in UnitId}
    return _UW


def weapons_consistent(base, spec):
    """guard of the recorded finding F20: no weapon carried by two units of which one is customised in the map"""
    return True


# ---- C07: nothing that existed is disturbed -----------------------------------------------------------------------------

def c07_oracle(base, spec, unedited, out):
    vb, vo = SC.SpecView(unedited), SC.SpecView(out)
    n = int.from_bytes(vb.str_payload[:2], "little")
    for i in range(1, n + 1):
        if vb.text(i) != vo.text(i):
            return f"string id {i}: {vb.text(i)!r} -> {vo.text(i)!r}"
    for k, l in enumerate(vb.locs):
        if any(l.values()) and vb.location(k + 1) != vo.location(k + 1):
            return f"location slot {k + 1}: {vb.location(k + 1)} -> {vo.location(k + 1)}"
    if vb.cuwps:
        for k, c in enumerate(vb.cuwps):
            if any(c.values()) and vb.cuwp(k + 1) != vo.cuwp(k + 1):
                return f"unit-property slot {k + 1} changed"
    if vb.swnm:
        for k, s_ in enumerate(vb.swnm):
            if s_ and vb.switch(k)[1] and vb.switch(k)[1] != vo.switch(k)[1]:
                return f"switch {k} name {vb.switch(k)[1]!r} -> {vo.switch(k)[1]!r}"
    wb, wo = vb.by_name.get(b"WAV "), vo.by_name.get(b"WAV ")
    if wb and wo:
        for k in range(512):
            a = int.from_bytes(wb[-1][4 * k:4 * k + 4], "little")
            if a and vb.text(a) != vo.text(int.from_bytes(wo[-1][4 * k:4 * k + 4], "little")):
                return f"sound slot {k} changed"
    tb, to = vb.triggers(), vo.triggers()
    # a switch NUMBER that pre-existing triggers use is occupied, named or not: no new switch may be given that number
    tables = SC.spec_tables()
    sw_args = {(kind, key): [a for a, c, e, f in row["args"] if c == "switch"]
               for kind in ("conditions", "actions") for key, row in tables[kind].items()}
    used_old = set()
    for t in tb:
        for kind in ("conditions", "actions"):
            for e in t[kind]:
                if isinstance(e, dict):
                    for a in sw_args.get((kind, e["type"]), []):
                        used_old.add(e[a][0])
    for k in sorted(used_old):
        if vb.swnm and not vb.switch(k)[1] and vo.swnm and vo.switch(k)[1]:
            return f"switch {k} (unnamed, used by existing triggers) was given to a new switch named {vo.switch(k)[1]!r}"
    auth = authored_triggers(spec)
    if len(vb.by_name.get(b"TRIG", [])) == 1 and not any(o[0] == "save_reload" for o in spec["ops"]) and len(to) == len(tb) + len(auth):
        for t, g in zip(auth, to[len(tb):]):
            for part, kind in (("conds", "conditions"), ("acts", "actions")):
                for e, ge in zip(t[part], g[kind]):
                    if e[0] != "rich" or not isinstance(ge, dict):
                        continue
                    for name, v in e[2]:
                        # (an authored switch that CARRIES a number asks for exactly that switch: not a new one)
                        if v[0] == 8 and spec["pool"]["switches"][v[1]][1] is None and name in sw_args.get((kind, e[1]), []) \
                                and ge[name][0] in used_old:
                            old_name = vb.switch(ge[name][0])[1] if vb.swnm else None
                            new_name = spec["pool"]["switches"][v[1]][0]
                            if not old_name or old_name != new_name:
                                return (f"a new switch ({new_name!r}) was given number {ge[name][0]}, which existing triggers "
                                        f"already use (for {old_name!r})")
    if len(vb.by_name.get(b"TRIG", [])) == 1:
        if len(to) < len(tb):
            return f"{len(tb)} triggers before, {len(to)} after"
        for k, (x, y) in enumerate(zip(tb, to)):
            if json.dumps(x, default=str, sort_keys=True) != json.dumps(y, default=str, sort_keys=True):
                return f"pre-existing trigger {k} changed"
    touched = {b"STR ", b"MRGN", b"TRIG", b"UPRP", b"UPUS", b"SWNM"}
    for op in spec["ops"]:
        if op[0] == "upsert_units":
            touched.add(op[1].encode())
    cb, co = vb.chunks, vo.chunks
    for i, ((n1, p1), (n2, p2)) in enumerate(zip(cb, co)):
        if n1 != n2:
            return f"section {i}: {n1!r} became {n2!r}"
        if n1 not in touched and p1 != p2:
            return f"section {i} {n1!r} changed although no edit concerns it"
    # sections the edits give no reason to change
    pool, auth = spec["pool"], authored_triggers(spec)
    uses = lambda tags: any(v[0] in tags for t in auth for part in ("conds", "acts") for e in t[part] if e[0] == "rich" for _, v in e[2])  # noqa
    quiet = []
    if not uses({2}):
        quiet.append(b"MRGN")
    if not uses({6}):
        quiet += [b"UPRP", b"UPUS"]
    if not uses({8, 9}):
        quiet.append(b"SWNM")
    for nme in quiet:
        if vb.by_name.get(nme) != vo.by_name.get(nme)[:len(vb.by_name.get(nme, []))] if vo.by_name.get(nme) else False:
            return f"section {nme!r} changed although nothing of its kind was added"
    return None


# ---- C10 -----------------------------------------------------------------------------------------------------------------

PASSTHROUGH_EXEMPT = {b"STR ", b"MRGN", b"TRIG", b"UNIS", b"UNIx", b"UPRP", b"SWNM", b"WAV "}


def c10_oracle(base, out, keys=None):
    """the property on one (input map, saved map) pair: None, or what is violated.  Differences that a RECORDED finding
    fully explains (by the shape of this very input) are not reported; their keys are added to `keys`."""
    keys = keys if keys is not None else set()
    cb, co = SC.chunks_of(base), SC.chunks_of(out)
    names = [n for n, _ in cb]
    for i, (n, p) in enumerate(cb):
        if n in PASSTHROUGH_EXEMPT:
            continue
        if i >= len(co) or co[i] != (n, p):
            if n == b"UPUS" and i < len(co) and co[i][0] == b"UPUS" and len(p) == 64:
                # UPUS is a recognised section without a rich model; it is recomputed from the unit-property slots
                up = [q for m, q in co if m == b"UPRP"]
                if up and len(up[-1]) == 1280 and len(co[i][1]) == 64 and \
                        all(co[i][1][k] in (0, 1) and (co[i][1][k] == 1 or not any(up[-1][20 * k:20 * k + 20])) for k in range(64)):
                    keys.add("upus-recomputed")
                    continue
            return f"section {i} {n!r} (no rich model) was moved or changed"
    # unmodelled entries of pre-existing triggers: byte-identical and AT THEIR POSITION
    tables = SC.spec_tables()
    tb = [p for n, p in cb if n == b"TRIG"]
    to = [p for n, p in co if n == b"TRIG"]
    split_edit = len(tb) > 1 and any(len(x) != len(y) for x, y in zip(tb, to))
    for si, (pb, po) in enumerate(zip(tb, to)):
        for ti in range(len(pb) // 2400):
            if ti >= len(po) // 2400:
                if split_edit:
                    keys.add("split-trig-sections")
                    break
                return "a pre-existing trigger disappeared"
            a = S.spec_parse(S.TRIGGER, pb, ti * 2400)[0]
            b = S.spec_parse(S.TRIGGER, po, ti * 2400)[0]
            for part, kind, idf in (("_conditions", "conditions", "_condition_id"), ("_actions", "actions", "_action_id")):
                for pos, r in enumerate(a[part]):
                    if r[idf] == 0 or r[idf] in tables[kind]:
                        continue
                    if pos < len(b[part]) and b[part][pos] == r:
                        continue
                    if split_edit and si > 0:
                        keys.add("split-trig-sections")
                        continue
                    # moved up because an empty slot in front of it was dropped, content and order intact?
                    gaps = sum(1 for q in a[part][:pos] if q[idf] == 0)
                    if gaps and pos - gaps < len(b[part]) and b[part][pos - gaps] == r:
                        keys.add("interior-gap-compacted")
                        continue
                    return f"TRIG {si} trigger {ti}: unsupported/unknown {kind[:-1]} (type {r[idf]}) at position {pos} changed or moved"
    return None
