#!/venv/bin/python
"""Entry point of every registered check:  tools/check.py <ID> [--tier quick|thorough] [--replay PATH]"""
from __future__ import annotations

import argparse
import importlib
import logging
import os
import sys
from pathlib import Path

HERE = Path(__file__).resolve().parent
sys.path.insert(0, str(HERE))
if os.environ.get("PYTHONHASHSEED") is None:
    # string hashing is fixed for the WHOLE check, this process included (set / dict iteration orders of the library under test
    # would otherwise differ from run to run): start again with the variable set
    os.environ["PYTHONHASHSEED"] = "0"
    os.execv(sys.executable, [sys.executable] + sys.argv)

import vlib  # noqa: E402


def main() -> int:
    ap = argparse.ArgumentParser()
    ap.add_argument("prop")
    ap.add_argument("--tier", default=os.environ.get("VERIF_TIER", "quick"), choices=["quick", "thorough"])
    ap.add_argument("--replay", default=None)
    a = ap.parse_args()
    seed = int(os.environ.get("VERIF_SEED", "20260929"))
    prop = a.prop.upper()
    mod = importlib.import_module(prop.lower())
    logging.disable(logging.CRITICAL)  # the library logs every odd value it decodes
    if a.replay:
        return mod.replay(a.replay)
    ck = vlib.Check(prop, a.tier, seed)
    try:
        mod.run(ck)
    except Exception as ex:  # machinery failure: never silently pass
        import traceback
        ck.oblige("harness", False, f"{type(ex).__name__}: {ex}\n{traceback.format_exc()}")
        print(traceback.format_exc(), file=sys.stderr)
    return ck.finish()


if __name__ == "__main__":
    sys.exit(main())
