"""Whole-map scenarios for the rich layer (C02, C03, C04, C07, C10, C11, C14):
   * a generator of synthetic CHK maps written byte by byte from the format description,
   * authoring of rich triggers / objects from plain JSON-able specs,
   * an independent reading of a saved CHK (spec view) with every reference resolved to content."""
from __future__ import annotations

import dataclasses
import json
import random
import struct
import typing
from decimal import Decimal
from pathlib import Path

import sections as S
import vlib

# ---- the specification tables, read out of coq/spec/SpecTrig.v through the extracted spec driver ------------

_SPEC = None


def spec_tables():
    """{"actions": {id: [(arg, codec, enum, field)]}, "conditions": {...}} from the Coq specification"""
    global _SPEC
    if _SPEC is None:
        out = vlib.run_model("C05S", ["(9 0)", "(9 1)"], shards=1)
        names = ["raw", "enum", "loc", "locthrow", "str", "strvalue", "cuwp", "switch", "aiscript"]

        def conv(line):
            d = {}
            for ent in vlib.parse_tree(line):
                key, model, args = ent
                rows = []
                for a, c, f in args:
                    rows.append(("".join(map(chr, a)), names[c[0]], "".join(map(chr, c[1])) if len(c) > 1 else "",
                                 "".join(map(chr, f))))
                d[key] = {"model": "".join(map(chr, model)), "args": rows}
            return d
        _SPEC = {"actions": conv(out[0]), "conditions": conv(out[1])}
    return _SPEC


MASK = {"_valid_special_properties_flags": 0x1F, "_valid_unit_properties_flags": 0x3F, "_flags": 0x1F}
UNSUPPORTED_ACTIONS = [7, 29, 30, 31, 41, 47, 58, 59]
UNSUPPORTED_CONDITIONS = [13]
ACTION_FIELDS = [f for f, _ in S.ACTION[2]]
COND_FIELDS = [f for f, _ in S.CONDITION[2]]
ACTION_W = dict(S.ACTION[2])
COND_W = dict(S.CONDITION[2])

# ---- synthetic maps ---------------------------------------------------------------------------------------------


def _enum_ids():
    import translate_enums
    return {n: [i for i, _ in rows] for n, (_, rows) in translate_enums.enums().items()}


_CARRIED = None


def carried_weapons():
    """weapon ids some unit carries (the library's unit -> weapon table defines the known-finding guard F14)"""
    global _CARRIED
    if _CARRIED is None:
        from richchk.model.richchk.unis.unit_id import UnitId
        from richchk.model.richchk.unis.unit_to_weapon_lookup import get_weapons_for_unit
        _CARRIED = {w.id for u in UnitId for w in get_weapons_for_unit(u)}
    return _CARRIED


class MapGen:
    """Writes a CHK directly from the format description.  form = "editor" keeps to what map editors write
    (reserved bits clear, references use the last id of their text, no gaps, unused fields zero)."""

    def __init__(self, rng: random.Random, form="editor", **opts):
        self.rng = rng
        self.form = form
        self.opts = opts
        self.enums = _enum_ids()
        self.texts: list[str] = []   # string id k+1 -> text
        self.spec = spec_tables()

    def sid(self, text: str) -> int:
        if text in self.texts:
            return len(self.texts) - self.texts[::-1].index(text)  # last id of the text
        self.texts.append(text)
        if self.opts.get("dup_texts", True) and self.rng.random() < 0.15:
            # the same text stored under two ids; editors refer to the last one
            self.texts.append(text)
            if self.opts.get("interleaved_ids") and self.rng.random() < 0.7:
                # ... and under a THIRD, later id that shares the FIRST id's offset: ids a < b < c with a and c on one
                # offset, b on another, all the same text; references use c
                self.texts.append(text)
                self.share_first = getattr(self, "share_first", set()) | {len(self.texts) - 1}
            if self.form == "wild" and self.rng.random() < 0.5:
                return len(self.texts) - 1
        return len(self.texts)

    def rand_text(self):
        rng = self.rng
        if self.opts.get("near_texts", True) and rng.random() < 0.2:
            # the neighbourhood of the texts the map already has: the empty text, and texts differing from an
            # existing one only by blanks, control / colour codes or letter case (a lookup that normalises its keys
            # merges exactly these)
            pool = [t for t in self.texts if t and t != "Anywhere"]
            if not pool or rng.random() < 0.15:
                return ""
            t = rng.choice(pool)
            return rng.choice([" " + t, t + " ", "\x1f" + t, t + "\n", "\t" + t, t + "\r", t.swapcase(), t + "\x02", "\x04" + t,
                               t.strip() + "  ", t[:-1] if len(t) > 1 else t + t])
        return "".join(chr(rng.randrange(33, 127)) for _ in range(rng.choice([1, 3, 8, 15])))

    def build(self):
        rng = self.rng
        wild = self.form == "wild"
        nloc = self.opts.get("nloc", rng.choice([64, 255, 255]))
        present = {"VER ", "STR ", "MRGN", "TRIG"}
        for name in ("UNIS", "UNIx", "UPRP", "UPUS", "SWNM", "WAV "):
            if self.opts.get("all_sections") or rng.random() < 0.7:
                present.add(name)
        present -= set(self.opts.get("without", ()))
        if "UPUS" in present and "UPRP" not in present:
            present.discard("UPUS")
        # locations
        locs = []
        for i in range(nloc):
            if i == 63 and not self.opts.get("no_anywhere"):
                locs.append({"_left_x1": 0, "_top_y1": 0, "_right_x2": 4096, "_bottom_y2": 4096,
                             "_string_id": self.sid("Anywhere"),
                             "_elevation_flags": rng.choice([0, 0, 0x15, rng.randrange(64)]) if self.opts.get("anywhere_flags") else 0})
            elif self.opts.get("degenerate_locs") and i in (4, 9, 14, 19, 24, 29):
                # the neighbourhood of "is this slot unused": records that are all zero but for ONE field, and a zero-area
                # point location (left = right, top = bottom) without name and flags
                l = dict.fromkeys([f for f, _ in S.LOC[2]], 0)
                if i == 4:
                    l.update(_left_x1=320, _top_y1=480, _right_x2=320, _bottom_y2=480)
                elif i == 9:
                    l.update(_left_x1=7)
                elif i == 14:
                    l.update(_bottom_y2=9)
                elif i == 19:
                    l.update(_elevation_flags=1)
                elif i == 24:
                    l.update(_string_id=self.sid(self.rand_text()))
                else:
                    l.update(_left_x1=64, _top_y1=64, _right_x2=64, _bottom_y2=64, _elevation_flags=0)
                locs.append(l)
            elif rng.random() < self.opts.get("loc_density", 0.08 if nloc == 255 else 0.25):
                x1, y1 = rng.randrange(0, 4000), rng.randrange(0, 4000)
                locs.append({"_left_x1": x1, "_top_y1": y1, "_right_x2": x1 + rng.randrange(0, 500),
                             "_bottom_y2": y1 + rng.randrange(0, 500),
                             "_string_id": self.sid(self.rand_text()) if rng.random() < 0.7 else 0,
                             "_elevation_flags": rng.randrange(64) if not wild else rng.randrange(65536)})
            else:
                locs.append(dict.fromkeys([f for f, _ in S.LOC[2]], 0))
        self.loc_ids = [i + 1 for i, l in enumerate(locs) if any(l.values())]
        # unit property slots
        cuwps = []
        prefill = self.opts.get("uprp_prefilled", rng.random() < 0.2)
        for i in range(64):
            if prefill or rng.random() < 0.1:
                cuwps.append({"_valid_special_properties_flags": rng.randrange(32) if not wild else rng.randrange(65536),
                              "_valid_unit_properties_flags": rng.randrange(64) if not wild else rng.randrange(65536),
                              "_owner_player": 0 if not wild else rng.choice([0, 3]),
                              "_hitpoints_percentage": rng.randrange(1, 101), "_shieldpoints_percentage": rng.randrange(101),
                              "_energypoints_percentage": rng.randrange(101), "_resource_amount": rng.choice([0, 1500]),
                              "_units_in_hangar": rng.randrange(9),
                              "_flags": rng.randrange(32) if not wild else rng.randrange(65536), "_padding": 0})
            else:
                cuwps.append(dict.fromkeys([f for f, _ in S.CUWP[2]], 0))
        # twins: a used slot copied into a free one, identical or differing in exactly one field - slots that a
        # too-coarse notion of "the same unit properties" would merge
        nz = [i for i, c in enumerate(cuwps) if any(c.values())]
        zs = [i for i, c in enumerate(cuwps) if not any(c.values())]
        self.cuwp_twins = []
        if len(nz) >= 2 and self.opts.get("cuwp_twins", rng.random() < 0.5):
            for _ in range(rng.choice([1, 2, 4])):
                i = rng.choice(nz)
                # into a free slot, or (full, editor-prefilled table) over another used one
                j = zs.pop(rng.randrange(len(zs))) if zs else rng.choice([k for k in nz if k != i])
                c = dict(cuwps[i])
                f = rng.choice([None, "_valid_special_properties_flags", "_valid_unit_properties_flags", "_hitpoints_percentage",
                                "_shieldpoints_percentage", "_energypoints_percentage", "_resource_amount", "_units_in_hangar",
                                "_flags"] + (["_padding"] if wild else []))
                if self.opts.get("identical_twins"):
                    f = None
                if f in ("_valid_special_properties_flags", "_flags"):
                    c[f] ^= 1 << rng.randrange(5)
                elif f == "_valid_unit_properties_flags":
                    c[f] ^= 1 << rng.randrange(6)
                elif f == "_padding":
                    c[f] ^= 1 << rng.randrange(32)
                elif f is not None:
                    c[f] = c[f] + 1 if c[f] < 100 else c[f] - 1
                if any(c.values()):
                    cuwps[j] = c
                    self.cuwp_twins += [i + 1, j + 1]
        self.cuwp_ids = [i + 1 for i, c in enumerate(cuwps) if any(c.values())]
        if "UPRP" not in present:          # no unit-property table: nothing can refer to a slot
            self.cuwp_ids, self.cuwp_twins = [], []
        # switches, wavs
        dens = self.opts.get("swnm_density", rng.choice([0.05, 0.05, 0.5, 0.9]))
        swnm = [self.sid(self.rand_text()) if rng.random() < dens else 0 for _ in range(256)]
        if self.opts.get("swnm_empty_ref"):
            swnm[3] = self.sid("")
        self.low_unnamed = [k for k in range(256) if swnm[k] == 0][:3]
        if self.opts.get("header_ptr"):
            # make sure the empty text is referenced (a location name); it gets the last id holding it
            anywhere = self.texts.index("Anywhere") + 1 if "Anywhere" in self.texts else -1
            for l in locs:
                if any(l.values()) and l["_string_id"] != anywhere:
                    l["_string_id"] = self.sid("")
                    break
        wavs = [self.sid("staredit\\wav\\" + self.rand_text() + ".wav") if rng.random() < 0.02 else 0 for _ in range(512)]
        self.wav_sids = [w for w in wavs if w]
        # unit settings
        def unit_settings(nw):
            flags, hp, sh, ar, bt, mi, ga, nm = [], [], [], [], [], [], [], []
            for u in range(228):
                custom = rng.random() < 0.1
                flags.append(0 if custom else 1)
                hp.append(rng.choice([256 * rng.randrange(1, 9999), rng.randrange(2 ** 32)]) if custom else 0)
                sh.append(rng.randrange(65536) if custom else 0)
                ar.append(rng.randrange(256) if custom else 0)
                bt.append(rng.randrange(65536) if custom else 0)
                mi.append(rng.randrange(65536) if custom else 0)
                ga.append(rng.randrange(65536) if custom else 0)
                if not custom and rng.random() < 0.03:
                    # a unit back on its default settings (flag 1, nothing customised) that still carries a name: a text, or the
                    # EMPTY text under an id of its own
                    nm.append(self.sid(rng.choice(["", "", self.rand_text()])))
                else:
                    nm.append(self.sid(self.rand_text()) if custom and rng.random() < 0.5 else 0)
            ok_w = carried_weapons() if not self.opts.get("orphan_weapons") else set(range(nw))
            wd = [rng.randrange(65536) if (w in ok_w and rng.random() < 0.1) else 0 for w in range(nw)]
            wb = [rng.randrange(65536) if (w in ok_w and rng.random() < 0.1) else 0 for w in range(nw)]
            return {"_unit_default_settings_flags": flags, "_unit_hitpoints": hp, "_unit_shieldpoints": sh,
                    "_unit_armorpoints": ar, "_unit_build_times": bt, "_unit_mineral_costs": mi, "_unit_gas_costs": ga,
                    "_unit_string_ids": nm, "_unit_base_weapon_damages": wd, "_unit_upgrade_weapon_damages": wb}
        # triggers
        trigs = [self.trigger() for _ in range(self.opts.get("ntrig", rng.choice([0, 1, 2, 4])))]
        if self.cuwp_twins and self.loc_ids:
            trigs.append(self.trigger_referencing("cuwp", self.cuwp_twins))
            # ... and one whose actions are the SAME action in everything but the slot referred to
            trigs.append(self.trigger_referencing("cuwp", self.cuwp_twins, same_args=True))
        if self.opts.get("use_low_switches") and self.low_unnamed:
            # existing triggers use the LOWEST unnamed switch numbers: occupied slots that carry no name
            trigs.append(self.trigger_referencing("switch", self.low_unnamed))
        if self.opts.get("sweep"):
            trigs += self.sweep_triggers()
        # assemble sections
        secs = []
        order = ["VER ", "STR ", "UNIS", "UNIx", "MRGN", "TRIG", "UPRP", "UPUS", "SWNM", "WAV "]
        if self.opts.get("shuffle_order"):
            # the format fixes no section order: any permutation is a valid map (VER kept in front, as every editor does)
            rest = order[1:]
            rng.shuffle(rest)
            order = order[:1] + rest
        payload = {}
        payload["VER "] = struct.pack("H", 205)
        payload["MRGN"] = S.spec_write(S.SPEC_FULL["MRGN"], {"_locations": locs})
        payload["TRIG"] = S.spec_write(S.SPEC_FULL["TRIG"], {"_triggers": trigs})
        payload["UPRP"] = S.spec_write(S.SPEC_FULL["UPRP"], {"_cuwp_slots": cuwps})
        used = [1 if any(c.values()) else 0 for c in cuwps]
        payload["UPUS"] = bytes(used if not wild else [rng.choice([0, 1]) for _ in range(64)])
        if self.opts.get("upus_zero"):
            # what editors leave behind for prefilled slots no trigger uses (the demon_lore fixture): data in UPRP, flag 0 in UPUS
            payload["UPUS"] = bytes(64)
        payload["SWNM"] = S.spec_write(S.SPEC_FULL["SWNM"], {"_switch_string_ids": swnm})
        payload["WAV "] = S.spec_write(S.SPEC_FULL["WAV "], {"_wav_string_ids": wavs})
        payload["UNIS"] = S.spec_write(S.SPEC_FULL["UNIS"], unit_settings(100))
        payload["UNIx"] = S.spec_write(S.SPEC_FULL["UNIx"], unit_settings(130))
        payload["STR "] = self.str_payload()
        chunks = []
        for name in order:
            if name in present:
                if rng.random() < 0.3:
                    chunks.append((bytes(rng.randrange(65, 91) for _ in range(4)), S.rand_bytes(rng, rng.choice([0, 5, 40]))))
                chunks.append((name.encode(), payload[name]))
        if rng.random() < 0.5:
            nm = rng.choice([b"STRx", b"MTXM", b"\xff\x00AB", b"PUNI"])
            chunks.append((nm, S.gen_str_payload(rng, 4) if nm == b"STRx" else S.rand_bytes(rng, rng.choice([0, 12, 100]))))
        if self.opts.get("split_trig") and trigs:
            chunks.append((b"TRIG", S.spec_write(S.SPEC_FULL["TRIG"], {"_triggers": [self.trigger()]})))
        return b"".join(S.frame(n, p) for n, p in chunks)

    def str_payload(self):
        rng = self.rng
        texts = list(self.texts)
        if not texts:
            texts = ["x"]
        wild = self.form == "wild"
        n = len(texts)
        extra_ids = rng.choice([0, 0, 3]) if wild else 0     # more ids sharing text 1 / pointing to ""
        base = 2 + 2 * (n + extra_ids)
        data, offs, pos = b"", [], 0
        # layout options (all legal: an offset may point anywhere in the section):
        #   interior_ids  - a text is stored as the tail of a longer string and its id points INSIDE that string; when the
        #                   same text also has a later id of its own (sid() stores some texts twice) this is the shape
        #                   "suffix pointer first, stand-alone twin later, references use the later id"
        #   header_ptr    - the LAST id holding the empty text points at the high byte of the string count (0 while there
        #                   are fewer than 256 ids): an offset into the header, below the string data
        interior = self.opts.get("interior_ids", 0.0)
        seen = set()
        for k, t in enumerate(texts):
            first_of_twins = t in texts[k + 1:] and t not in seen
            seen.add(t)
            if t and interior and (first_of_twins or rng.random() < interior * 0.3):
                prefix = "".join(chr(rng.randrange(65, 91)) for _ in range(rng.choice([1, 4, 9])))
                offs.append(base + pos + len(prefix))
                b = (prefix + t).encode("ascii") + b"\0"
            else:
                offs.append(base + pos)
                b = t.encode("ascii") + b"\0"
            data += b
            pos += len(b)
        for k in getattr(self, "share_first", ()):
            if k < len(texts):
                offs[k] = offs[texts.index(texts[k])]
        for _ in range(extra_ids):
            offs.append(offs[0])
        if self.opts.get("header_ptr") and n + extra_ids < 256 and "" in texts:
            offs[len(texts) - 1 - texts[::-1].index("")] = 1
        return struct.pack("H", n + extra_ids) + b"".join(struct.pack("H", o) for o in offs) + data

    def action(self, kind=None):
        rng = self.rng
        wild = self.form == "wild"
        rec = dict.fromkeys(ACTION_FIELDS, 0)
        kind = kind or rng.choice(["supported"] * 6 + ["unsupported", "unknown"])
        if kind == "supported":
            key = rng.choice(sorted(self.spec["actions"]))
            rec["_action_id"] = key
            for a, c, e, f in self.spec["actions"][key]["args"]:
                rec[f] = self.arg_value(c, e, ACTION_W[f])
                if rec[f] is None:
                    return self.action("unsupported")
            rec["_flags"] = rng.choice([0, 4, 16, 20]) if not wild else rng.randrange(256)
            if wild and rng.random() < 0.3:
                free = [f for f in ACTION_FIELDS if f not in {x[3] for x in self.spec["actions"][key]["args"]}
                        and f not in ("_action_id", "_flags")]
                rec[rng.choice(free)] = rng.randrange(1, 200)   # a field the type does not use
        elif kind == "unsupported":
            rec["_action_id"] = rng.choice(UNSUPPORTED_ACTIONS)
            for f in ACTION_FIELDS:
                if f != "_action_id":
                    rec[f] = rng.randrange(2 ** (8 * ACTION_W[f]))
        else:
            rec["_action_id"] = rng.randrange(60, 256)
            for f in ACTION_FIELDS:
                if f != "_action_id":
                    rec[f] = rng.randrange(2 ** (8 * ACTION_W[f]))
        return rec

    def condition(self, kind=None):
        rng = self.rng
        wild = self.form == "wild"
        rec = dict.fromkeys(COND_FIELDS, 0)
        kind = kind or rng.choice(["supported"] * 6 + ["unsupported", "unknown"])
        if kind == "supported":
            key = rng.choice(sorted(self.spec["conditions"]))
            rec["_condition_id"] = key
            for a, c, e, f in self.spec["conditions"][key]["args"]:
                rec[f] = self.arg_value(c, e, COND_W[f])
                if rec[f] is None:
                    return self.condition("unsupported")
            rec["_flags"] = rng.choice([0, 16]) if not wild else rng.randrange(256)
        elif kind == "unsupported":
            rec["_condition_id"] = 13
            for f in COND_FIELDS:
                if f != "_condition_id":
                    rec[f] = rng.randrange(2 ** (8 * COND_W[f]))
        else:
            rec["_condition_id"] = rng.randrange(24, 256)
            for f in COND_FIELDS:
                if f != "_condition_id":
                    rec[f] = rng.randrange(2 ** (8 * COND_W[f]))
        return rec

    def arg_value(self, codec, enum, width):
        rng = self.rng
        hi = 2 ** (8 * width)
        if codec == "raw":
            return rng.choice([0, 1, hi - 1, rng.randrange(hi)])
        if codec == "enum":
            return rng.choice([i for i in self.enums[enum] if i < hi])
        if codec in ("loc", "locthrow"):
            return rng.choice(self.loc_ids) if self.loc_ids else None
        if codec == "str":
            return self.sid(self.rand_text())
        if codec == "strvalue":
            return self.sid("staredit\\wav\\" + self.rand_text() + ".wav")
        if codec == "cuwp":
            return rng.choice(self.cuwp_ids) if self.cuwp_ids else None
        if codec == "switch":
            low = getattr(self, "low_unnamed", None)
            if low and rng.random() < 0.4:
                return rng.choice(low)       # the lowest unnamed switch numbers: what a naive allocator hands out next
            return rng.randrange(256)
        if codec == "aiscript":
            return struct.unpack("I", rng.choice([b"JYDg", b"EnBk", b"+Vi0", b"Ab1_", b"zz99"]))[0]
        raise ValueError(codec)

    def sweep_triggers(self):
        """every condition / action type byte the library has no model for (1..255 minus the supported ones), each
        once, with random field contents"""
        rng = self.rng
        cids = [i for i in range(1, 256) if i not in self.spec["conditions"]]
        aids = [i for i in range(1, 256) if i not in self.spec["actions"]]
        out = []
        while cids or aids:
            cs, cids = cids[:16], cids[16:]
            as_, aids = aids[:64], aids[64:]
            conds = []
            for i in cs:
                rec = {f: rng.randrange(2 ** (8 * COND_W[f])) for f in COND_FIELDS}
                rec["_condition_id"] = i
                conds.append(rec)
            acts = []
            for i in as_:
                rec = {f: rng.randrange(2 ** (8 * ACTION_W[f])) for f in ACTION_FIELDS}
                rec["_action_id"] = i
                acts.append(rec)
            conds += [dict.fromkeys(COND_FIELDS, 0)] * (16 - len(conds))
            acts += [dict.fromkeys(ACTION_FIELDS, 0)] * (64 - len(acts))
            out.append({"_conditions": conds, "_actions": acts,
                        "_player_execution": {"_execution_flags": 0, "_player_flags": [1] + [0] * 26, "_current_action_index": 0}})
        return out

    def trigger_referencing(self, codec, values, same_args=False):
        """a trigger whose actions refer, one each, to the given slots through an action taking that codec
        (same_args: one action type and one value per other argument for all of them)"""
        keys = [k for k in sorted(self.spec["actions"]) if any(c == codec for _, c, _, _ in self.spec["actions"][k]["args"])]
        acts = []
        shared = None
        for v in values[:64]:
            if shared is None or not same_args:
                key = self.rng.choice(keys)
                rec = dict.fromkeys(ACTION_FIELDS, 0)
                rec["_action_id"] = key
                for a, c, e, f in self.spec["actions"][key]["args"]:
                    rec[f] = v if c == codec else self.arg_value(c, e, ACTION_W[f])
                    if rec[f] is None:
                        rec[f] = 0
                shared = rec
            else:
                rec = dict(shared)
                for a, c, e, f in self.spec["actions"][rec["_action_id"]]["args"]:
                    if c == codec:
                        rec[f] = v
            acts.append(rec)
        acts += [dict.fromkeys(ACTION_FIELDS, 0)] * (64 - len(acts))
        return {"_conditions": [dict.fromkeys(COND_FIELDS, 0)] * 16, "_actions": acts,
                "_player_execution": {"_execution_flags": 0, "_player_flags": [1] + [0] * 26, "_current_action_index": 0}}

    def trigger(self):
        rng = self.rng
        wild = self.form == "wild"
        conds = [self.condition() for _ in range(rng.choice([0, 1, 2, 5, 16]))]
        acts = [self.action() for _ in range(rng.choice([0, 1, 3, 10, 64]))]
        if wild and rng.random() < 0.3 and len(acts) >= 2:
            acts.insert(rng.randrange(1, len(acts)), dict.fromkeys(ACTION_FIELDS, 0))   # a gap
            acts = acts[:64]
        if wild and rng.random() < 0.3 and 1 <= len(conds) <= 13:
            # a gap in the condition list too, with entries the library has no model for behind it
            conds.insert(rng.randrange(1, len(conds) + 1), dict.fromkeys(COND_FIELDS, 0))
            conds.append(self.condition(rng.choice(["unknown", "unsupported"])))
            conds = conds[:16]
        conds += [dict.fromkeys(COND_FIELDS, 0)] * (16 - len(conds))
        acts += [dict.fromkeys(ACTION_FIELDS, 0)] * (64 - len(acts))
        return {"_conditions": conds, "_actions": acts,
                "_player_execution": {"_execution_flags": 0,
                                      "_player_flags": [rng.choice([0, 0, 1]) for _ in range(27)],
                                      "_current_action_index": 0}}


# ---- loading / saving through the library ---------------------------------------------------------------------


def load(b: bytes):
    from richchk.io.chk.chk_io import ChkIo
    from richchk.io.richchk.richchk_io import RichChkIo
    return RichChkIo().decode_chk(ChkIo().decode_chk_binary_data(b))


def save(rich, wav_meta=None) -> bytes:
    """wav_meta: None (encode_chk's default) or [[path, duration_ms], ...] -> the optional wav_metadata_lookup"""
    from richchk.io.chk.chk_io import ChkIo
    from richchk.io.richchk.richchk_io import RichChkIo
    if wav_meta is None:
        return ChkIo().encode_chk_to_bytes(RichChkIo().encode_chk(rich))
    from richchk.model.mpq.stormlib.wav.stormlib_wav import StormLibWav
    from richchk.model.richchk.wav.rich_wav_metadata_lookup import RichWavMetadataLookup
    lookup = RichWavMetadataLookup(_metadata_by_wav_path={p: StormLibWav(p, d) for p, d in wav_meta})
    return ChkIo().encode_chk_to_bytes(RichChkIo().encode_chk(rich, wav_metadata_lookup=lookup))



def wav_meta_of(b: bytes):
    """metadata for (most of) the sound paths the map's Play WAV actions name: what StarCraftMpqIo.save_chk_to_mpq
    passes to encode_chk.  None when the map plays no sound."""
    try:
        v = SpecView(b)
        paths = sorted({a["_path_to_wav_in_mpq"] for t in v.triggers() for a in t["actions"]
                        if isinstance(a, dict) and a.get("type") == 8 and isinstance(a.get("_path_to_wav_in_mpq"), str)})
    except Exception:  # noqa
        return None
    return [[p, 2000 + 41 * i] for i, p in enumerate(paths)] or None


def fixtures():
    return [(str(p.relative_to(vlib.REPO)), p.read_bytes()) for p in sorted((vlib.REPO / "test/resources").glob("*.chk"))]


# ---- the independent reading of a CHK -----------------------------------------------------------------------------


def chunks_of(b: bytes):
    out, i = [], 0
    while i + 8 <= len(b):
        sz = int.from_bytes(b[i + 4:i + 8], "little")
        out.append((b[i:i + 4], b[i + 8:i + 8 + sz]))
        i += 8 + sz
    return out


class SpecView:
    """What StarCraft reads from a CHK, by the format description only (no richchk code)."""

    def __init__(self, b: bytes):
        self.chunks = chunks_of(b)
        self.by_name = {}
        for n, p in self.chunks:
            self.by_name.setdefault(n, []).append(p)
        self.spec = spec_tables()
        self.str_payload = (self.by_name.get(b"STR ") or [b"\0\0"])[-1]
        mr = (self.by_name.get(b"MRGN") or [b""])[-1]
        self.locs = S.spec_parse(S.SPEC_FULL["MRGN"], mr, 0)[0]["_locations"]
        up = self.by_name.get(b"UPRP")
        self.cuwps = S.spec_parse(S.SPEC_FULL["UPRP"], up[-1], 0)[0]["_cuwp_slots"] if up and len(up[-1]) == 1280 else None
        sw = self.by_name.get(b"SWNM")
        self.swnm = S.spec_parse(S.SPEC_FULL["SWNM"], sw[-1], 0)[0]["_switch_string_ids"] if sw and len(sw[-1]) == 1024 else None

    def text(self, sid):
        if sid == 0:
            return None
        t = S.spec_resolve_string("STR ", self.str_payload, sid)
        return None if t is None else t.decode("latin-1")

    def location(self, lid):
        if lid == 0 or lid > len(self.locs):
            return ("no-location", lid) if lid else None
        l = self.locs[lid - 1]
        return (l["_left_x1"], l["_top_y1"], l["_right_x2"], l["_bottom_y2"], self.text(l["_string_id"]),
                l["_elevation_flags"] % 64)

    def cuwp(self, cid):
        if self.cuwps is None or not (1 <= cid <= 64):
            return ("no-cuwp", cid)
        c = self.cuwps[cid - 1]
        # what the game reads of a slot: the defined bits of the flag words; the owner byte is "always NULL"
        return tuple(sorted((f, v & MASK.get(f, 0xFFFFFFFF)) for f, v in c.items() if f != "_owner_player"))

    def switch(self, k):
        return (k, self.text(self.swnm[k]) if self.swnm and k < 256 else None)

    def entry(self, rec, kind):
        """one action/condition record with every reference replaced by the content it denotes"""
        idf = "_action_id" if kind == "actions" else "_condition_id"
        key = rec[idf]
        row = self.spec[kind].get(key)
        if row is None:
            return ("raw", tuple(sorted(rec.items())))
        out = {"type": key, "flags": rec["_flags"] % 32}
        used = {idf, "_flags"}
        for a, c, e, f in row["args"]:
            v = rec[f]
            used.add(f)
            if c in ("loc", "locthrow"):
                out[a] = self.location(v)
            elif c in ("str", "strvalue"):
                out[a] = self.text(v)
            elif c == "cuwp":
                out[a] = self.cuwp(v)
            elif c == "switch":
                out[a] = self.switch(v)
            else:
                out[a] = v
        out["_unused"] = tuple((f, rec[f]) for f in rec if f not in used)
        return out

    def triggers(self):
        out = []
        for p in self.by_name.get(b"TRIG", []):
            for t in S.spec_parse(S.SPEC_FULL["TRIG"], p, 0)[0]["_triggers"]:
                out.append({
                    "conditions": [self.entry(c, "conditions") for c in t["_conditions"]],
                    "actions": [self.entry(a, "actions") for a in t["_actions"]],
                    "players": t["_player_execution"]["_player_flags"],
                    "exec": (t["_player_execution"]["_execution_flags"], t["_player_execution"]["_current_action_index"]),
                })
        return out

    def executed(self, entries):
        """what the game runs: it stops at the first empty (type 0) entry"""
        out = []
        for e in entries:
            if isinstance(e, dict) and e["type"] == 0:
                break
            if isinstance(e, tuple) and e[0] == "raw" and dict(e[1]).get("_action_id", dict(e[1]).get("_condition_id")) == 0:
                break
            out.append(e)
        return out


# ---- what StarCraft reads, compared before / after ----------------------------------------------------------------


def semantic_diff(before: bytes, after: bytes):
    """list of (finding key or None, description) for every difference in what the game reads"""
    out = []
    vb, va = SpecView(before), SpecView(after)
    nb = [n for n, _ in vb.chunks]
    na = [n for n, _ in va.chunks]
    if na[:len(nb)] != nb:
        out.append((None, f"section order / names changed: {nb} -> {na}"))
        return out
    for n, p in va.chunks[len(nb):]:
        empty_optional = n in (b"SWNM", b"UPRP", b"UPUS") and n not in vb.by_name and not any(p)
        # a slot-usage table appended because the map had none, agreeing with the slots in use, says nothing new
        consistent_upus = (n == b"UPUS" and b"UPUS" not in vb.by_name and vb.cuwps is not None and len(p) == 64
                           and list(p) == [1 if any(c.values()) else 0 for c in vb.cuwps])
        if not (empty_optional or consistent_upus):
            out.append((None, f"section {n!r} appended with content"))
    for i, ((n, p), (_, q)) in enumerate(zip(vb.chunks, va.chunks)):
        if len(p) != len(q):
            if n == b"MRGN" and len(p) == 1280 and len(q) == 5100 and not any(q[1280:]):
                out.append(("mrgn-64-slots", "64-slot MRGN re-emitted with 255 slots"))
            elif n == b"STR ":
                pass  # judged through the resolved texts below
            else:
                out.append((None, f"section {i} {n!r} changed size {len(p)} -> {len(q)}"))
        elif n not in (b"STR ", b"MRGN", b"TRIG", b"UPRP", b"UPUS", b"SWNM", b"WAV ", b"UNIS", b"UNIx") and p != q:
            out.append((None, f"section {i} {n!r} (no rich model) changed"))
    # locations
    for k in range(min(len(vb.locs), len(va.locs))):
        if vb.location(k + 1) != va.location(k + 1):
            out.append((None, f"location {k + 1}: {vb.location(k + 1)} -> {va.location(k + 1)}"))
    # unit properties
    if vb.cuwps is not None:
        for k in range(64):
            a = {f: v & MASK.get(f, 0xFFFFFFFF) for f, v in vb.cuwps[k].items() if f not in ("_owner_player",)}
            b = {f: v & MASK.get(f, 0xFFFFFFFF) for f, v in (va.cuwps[k] if va.cuwps else {}).items() if f not in ("_owner_player",)}
            if a != b:
                out.append((None, f"unit-property slot {k + 1}: {a} -> {b}"))
    # switch names, sounds
    if vb.swnm is not None:
        for k in range(256):
            if vb.switch(k)[1] != va.switch(k)[1] and (vb.switch(k)[1] or va.switch(k)[1]):
                out.append((None, f"switch {k} name {vb.switch(k)[1]!r} -> {va.switch(k)[1]!r}"))
    for nm, sp in ((b"WAV ", "WAV "),):
        if nm in vb.by_name and len(vb.by_name[nm][-1]) == 2048 and nm in va.by_name:
            wb = S.spec_parse(S.SPEC_FULL[sp], vb.by_name[nm][-1], 0)[0]["_wav_string_ids"]
            wa = S.spec_parse(S.SPEC_FULL[sp], va.by_name[nm][-1], 0)[0]["_wav_string_ids"]
            for k in range(512):
                if vb.text(wb[k]) != va.text(wa[k]):
                    out.append((None, f"sound slot {k}: {vb.text(wb[k])!r} -> {va.text(wa[k])!r}"))
    # unit settings
    for nm in (b"UNIS", b"UNIx"):
        if nm in vb.by_name and nm in va.by_name and len(vb.by_name[nm][-1]) == len(va.by_name[nm][-1]):
            sp = S.SPEC_FULL[nm.decode()]
            if len(vb.by_name[nm][-1]) != S.spec_size(sp):
                continue
            ub = S.spec_parse(sp, vb.by_name[nm][-1], 0)[0]
            ua = S.spec_parse(sp, va.by_name[nm][-1], 0)[0]
            for f in ub:
                for k, (x, y) in enumerate(zip(ub[f], ua[f])):
                    if f == "_unit_string_ids":
                        x, y = vb.text(x), va.text(y)
                    if f == "_unit_default_settings_flags":
                        x, y = int(bool(x)), int(bool(y))
                    if x != y:
                        if f in ("_unit_base_weapon_damages", "_unit_upgrade_weapon_damages") and k not in carried_weapons() and y == 0:
                            out.append(("orphan-weapons-zeroed", f"{nm.decode()} weapon {k} {f}: {x} -> 0"))
                        else:
                            out.append((None, f"{nm.decode()} {f}[{k}]: {x} -> {y}"))
    # triggers
    tb, ta = vb.triggers(), va.triggers()
    if len(tb) != len(ta):
        out.append((None, f"{len(tb)} triggers -> {len(ta)}"))
    for k, (x, y) in enumerate(zip(tb, ta)):
        if x["players"] != y["players"] or x["exec"] != y["exec"]:
            out.append((None, f"trigger {k}: execution data changed"))
        for part in ("conditions", "actions"):
            ex, ey = vb.executed(x[part]), va.executed(y[part])
            if ex == ey:
                continue
            strip = lambda es: [({k2: v for k2, v in e.items() if k2 != "_unused"} if isinstance(e, dict) else e) for e in es]  # noqa
            sx, sy = strip(ex), strip(ey)
            if sx == sy:
                out.append(("unused-fields-zeroed", f"trigger {k} {part}: fields the type does not use were zeroed"))
            elif len(sy) > len(sx) and sy[:len(sx)] == sx:
                out.append(("interior-gap-compacted", f"trigger {k} {part}: entries after an empty entry became executable"))
                if ex != ey[:len(ex)]:
                    out.append(("unused-fields-zeroed", f"trigger {k} {part}: fields the type does not use were zeroed"))
            else:
                j = next((i for i, (p1, p2) in enumerate(zip(sx, sy)) if p1 != p2), min(len(sx), len(sy)))
                out.append((None, f"trigger {k} {part}[{j}]: {str(sx[j] if j < len(sx) else None)[:160]} -> {str(sy[j] if j < len(sy) else None)[:160]}"))
    return out
