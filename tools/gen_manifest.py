#!/usr/bin/env python3
"""Writes /verif/MANIFEST.json from the table below (one place to keep it valid)."""
import json
from pathlib import Path

ALL = [f"C{n:02d}" for n in range(1, 20)]

CHECKS = {
    "C01": dict(
        text="Coq theorem C01_chk_roundtrip: for every well-formed CHK (induction over the chunk list: any number, order, "
             "duplication; arbitrary 4-byte names; arbitrary payload bytes) decode-then-encode is the identity; generic "
             "layout round-trip theorem instantiated on layouts regenerated from the transcoders' source on every run; "
             "STR/STRx by induction over the NUL split. Tie: translate_layouts.py (fail-closed) + correspondence of the "
             "hand models (chunk loop, STR) against the implementation on generated maps and the repository fixtures.",
        ref="DESIGN.md 5.1",
        note="Trusted: Coq kernel, translate_layouts.py, extraction (ExtrOcamlBasic), CPython struct/BytesIO, "
             "surrogateescape being byte-transparent (exercised, not proved).",
        tech="Coq proof by structural induction (layout language, chunk list) + source-to-Coq translator + differential correspondence",
    ),
    "C02": dict(
        text="PARTIAL. A hand-written Coq model of the whole rich pipeline (decode context, the seven rich section "
             "transcoders over the generated layouts / flag / enum / trigger tables, the five rebuilders, save) is tied to "
             "the implementation BYTE FOR BYTE on generated whole maps and the fixtures. Proved about it: every flag word "
             "keeps exactly its defined bits, location slots round-trip under the last-id guard, unknown / unsupported "
             "entries and unmodelled sections are untouched, and - for a well-formed string table - an unedited save emits the STR "
             "section exactly as it was loaded (everything decode_chk builds mentions only texts that table resolves); a supported "
             "action / condition of ANY registered type, decoded in the load context and encoded in the save context, keeps its type number, "
             "its five flag bits, the number in every plain / enumeration field and a string number resolving to the same text. The full statement (spec_view preserved) is false of the "
             "unchanged code outside four recorded findings; it is judged per map by an independent reader of the bytes "
             "before and after, every difference matched against the recorded finding predicates.",
        ref="DESIGN.md 5.9",
        note="Known findings: mrgn-64-slots, orphan-weapons-zeroed, interior-gap-compacted, unused-fields-zeroed. The "
             "independent reader is tools/scenarios.py (format description + the Coq spec tables), not richchk.",
        tech="Coq proof (section-level round-trip lemmas, partial) + byte-exact correspondence of a full pipeline model + independent-reader oracle",
    ),
    "C03": dict(
        text="PARTIAL. Same pipeline model, tied byte for byte. Proved: the WHOLE 255-slot location table and the WHOLE 64-slot "
             "unit-property table are the identity in editor form (induction over the slot list; reserved bits clear, last-id "
             "references, owner 0 — editor-prefilled slots included), unmodelled sections "
             "come back identical in place, the STR section of an unedited map is emitted exactly as loaded; a trigger entry of any of the "
             "51 + 22 supported types in editor form is written back as exactly the record read, and a gap-free trigger keeps every entry at its position. Byte identity of whole editor-form maps and idempotence of the cycle for every "
             "decodable map (editor-form and non-canonical) are checked on the implementation per map; the three places "
             "where the unchanged code is not byte-identical are recorded findings with replayed witnesses.",
        ref="DESIGN.md 5.10",
        note="Known findings: mrgn-64-slots (fixture test-chkjson-scm.chk), upus-recomputed (fixture demon_lore), "
             "orphan-weapons-zeroed, swnm-empty-name-zeroed, uprp-slot-dropped-fields-only. The idempotence clause "
             "(C03_full_statement) is REFUTED on the model by theorem C03_idempotence_refuted (witness evaluated in the "
             "kernel, replayed on the implementation every run).",
        tech="Coq proof (slot-level round trips, partial) + byte-exact correspondence of the pipeline model + byte-identity / idempotence oracle",
    ),
    "C04": dict(
        text="PARTIAL. Coq theorem: for every supported action type and ANY lookups, each authored argument is written "
             "through its codec into the record field the SPECIFICATION table names, the type byte is the type's number, "
             "unused fields are zero (C05's generic theorem pushed through the public encode); authored strings get ids "
             "resolving to them (C08) and new objects free slots of their own (C09); the record written for an authored action / "
             "condition of any of the 51 + 22 types is read back by the registered transcoder as the same type with the same flags and "
             "arguments (identical for plain numbers, enumeration members, strings and AI scripts - also END TO END: the load of the saved map reads "
             "strings through the very table the save encoded against; for object references the number written names, in the rebuilt "
             "location / unit-property table, a slot holding the authored object, the WHOLE emitted location / unit-property / switch / sound "
             "tables are read back by a later load slot by slot, and - END TO END through save and the context a later load builds - a "
             "location number resolves to the authored location, a unit-property number to a set with equal properties, a switch number to the "
             "switch carrying the authored name; two composed instances: a Center View action and a Create-Units-with-Properties action survive "
             "save and reload). The end-to-end claim is checked on the "
             "implementation: authored scenarios over all 51+22 types, read back by an independent reader resolving every "
             "reference to content; the pipeline model reproduces the saved bytes exactly.",
        ref="DESIGN.md 5.11",
        note="Guards: hit points multiples of 1/256. Non 7-bit strings are refused since cee72c9. Known finding "
             "shared-weapon-stale-copy (replayed witness).",
        tech="Coq proof (field-level theorem for all types; composition of C05/C08/C09 lemmas, partial) + byte-exact model correspondence + independent-reader oracle",
    ),
    "C05": dict(
        text="Coq theorems: the (argument, codec, record field) tables read from the source of all 51 action and 22 "
             "condition transcoders equal the hand-transcribed Scenario.chk appendix tables (same type numbers, model "
             "classes, triples; every other field zero), and for EVERY interpretation of the codecs each argument is "
             "written to / read from exactly the spec's field, the type byte is the type's own number, no two arguments "
             "share a field (generic theorems over the table interpreter). A consistent decode/encode swap changes the "
             "generated table and breaks the equality; sentinel probing against the spec-table interpreter then yields "
             "the concrete record.",
        ref="DESIGN.md 5.5",
        note="Trusted: coq/spec/SpecTrig.v (hand transcription), translate_trig.py (fail-closed), the probe contexts "
             "of tools/c05.py. Which exception is raised first on doubly-invalid records is not compared.",
        tech="Coq proof (table equality by computation + generic interpreter lemmas) + source-to-Coq translator + sentinel correspondence",
    ),
    "C06": dict(
        text="Coq theorems: the layouts read from the transcoders' source equal the hand-transcribed specification layouts "
             "(decode and encode side), and for every layout every scalar reached by a path is the little-endian integer "
             "at the layout's offset and width, for every payload (generic theorem field_at_offset + encode_at_offset); for "
             "the string tables STR/STRx the count is the integer at 0, offset k the integer at w+w*k and the strings the "
             "NUL-terminated runs after the last offset (C06_string_table_fields_at_the_spec_offsets). "
             "A consistent decode/encode swap changes the generated layout and breaks the equality; the search then "
             "exhibits a payload on which the decoded field differs from the independent spec reader.",
        ref="DESIGN.md 5.2",
        note="Trusted: coq/spec/SpecLayouts.v and tools/sections.py SPEC_FULL (two hand transcriptions of the format), "
             "translator, kernel.",
        tech="Coq proof (generic offset theorem by induction on layouts; table equality by computation) + translator + sentinel correspondence",
    ),
    "C07": dict(
        text="Coq theorems (partial only in that the split-TRIG finding is excluded by a premise): by INDUCTION OVER THE EDIT SEQUENCE every section the operations do not address stays "
             "where and as it was; string numbers are never renumbered (the lookup of a grown table is the old lookup "
             "followed by new texts); hence for any edit history the sound table / unit settings the unedited save emits are "
             "emitted byte for byte; the rebuilt location list is the old one followed by the newly placed locations and every "
             "occupied index still resolves to its location; added triggers are "
             "appended (existing ones keep content and position), every string id keeps its text through the save path's "
             "rebuild, slots handed to new locations / unit-property sets were empty, sections without a rich model keep "
             "place and bytes; EVERY PRE-EXISTING TRIGGER IS UNCHANGED BYTE FOR BYTE (C07_preexisting_triggers_are_unchanged_"
             "byte_for_byte: the numbers of strings, locations, unit-property sets and switches that sit in the loaded map's "
             "tables do not depend on what else a save has to place), with a kernel-computed example meeting every premise; and "
             "a refutation on the model of the recorded finding (split TRIG sections). Random edit "
             "sequences are run on the implementation and compared slot by slot with the save of the unedited map by an "
             "independent reader; the pipeline model reproduces every saved map byte for byte.",
        ref="DESIGN.md 5.12",
        note="Known finding: split-trig-sections (F19).",
        tech="Coq proof (induction over edit sequences; growth lemmas for the string table; partial) + byte-exact model correspondence over edit sequences + independent-reader oracle",
    ),
    "C08": dict(
        text="Coq theorem C08_add_strings_correct about a hand model of the STR/STRx editors (w = 2 | 4): for every "
             "well-formed table (nothing assumed about offset order, sharing, interior pointers, unreferenced data, "
             "emptiness) and every request list, existing ids keep their text, every requested string gets an id "
             "resolving to exactly it, data only grows by distinct not-yet-resolvable strings, the result is "
             "well-formed, and a second add is a no-op; plus STR->STRx preserves the id->text map. Tie: correspondence "
             "of the model with the real editors / generator / lookup builder on grammar-generated tables, and the "
             "property judged on encoded bytes by an independent resolver.",
        ref="DESIGN.md 5.6",
        note="Hypotheses: 7-bit NUL-free strings (non-7-bit authored strings are a separate finding under C04/C11); "
             "offsets within the field width, otherwise encode raises. Model is hand-written; tie is differential.",
        tech="Coq proof (list/offset arithmetic, refinement to an id->text view) + differential correspondence",
    ),
    "C09": dict(
        text="Coq theorems about a hand model of the five slot allocators (one engine, four tables + the SWNM rebuild), "
             "with the range constants regenerated from the source: for EVERY occupancy and EVERY batch in EVERY "
             "iteration order, carried indices are kept or the object is not placed, no slot goes to two objects, every "
             "slot used was empty, new ids lie in range and are never the reserved Anywhere id; exhaustion raises (MRGN: "
             "leaves unplaced), a full table never blocks a no-op, and a location carrying a free in-range index is placed "
             "there however full the table is. Tie: per-object outcome of the real editors under "
             "forced iteration orders vs the extracted model, plus the property evaluated on the real result.",
        ref="DESIGN.md 5.7",
        note="The model sees objects as requests (carry k / fresh / equal-to-existing); the harness derives the request "
             "from the Python object by the library's own equality rules. Hash collisions between distinct keys excluded.",
        tech="Coq proof (induction over the request list, for all iteration orders) + constants translator + forced-order correspondence",
    ),
    "C14": dict(
        text="Coq theorem: the allocation engine's result for two iteration orders of the same request set (distinct unused "
             "carried indices, n index-less objects) agrees on success/raise, keeps carried indices, and hands the SAME "
             "list of ids to the index-less objects, so outputs differ by a bijection on new slot numbers; fresh ids are "
             "always a prefix of the free list; the same for EVERY table mode (order_independent_gen: the location table that leaves "
             "the surplus unplaced, the switch editor). Tie/search: every scenario saved in separate interpreters under different "
             "PYTHONHASHSEED and allocation padding, compared in a canonical form that abstracts only new slot numbers.",
        ref="DESIGN.md 5.8",
        note="Order independence of the string table is by construction (lists / OrderedDicts only) and is covered by the "
             "multi-process comparison, not by a theorem. Known finding two-switches-one-index (two switch VALUES with one index, "
             "incl. a bare-index reference to a named switch). Two order-dependence defects repaired (620b222, 7e75338).",
        tech="Coq proof (permutation invariance of the allocation engine) + multi-process hash-seed differential",
    ),
    "C10": dict(
        text="Coq theorems over the pipeline model: for every decoded map, every position holding an unmodelled section "
             "and ANY edits leaving that position alone, the save puts the very same section there; an action / condition "
             "whose type byte is outside the enumeration, or inside it without a transcoder, is kept as the raw record by "
             "decode and written back field for field by encode, for any lookups; for WHOLE entry lists the unmodelled entries "
             "come out field for field in their original ORDER, and at their original POSITION when no empty slot precedes "
             "them; lifted to whole TRIG sections and to load -> append triggers / edit elsewhere -> save. Tie: maps with "
             "unknown / unsupported content plus random edits, positions compared on the implementation, and the model "
             "reproduces the saved bytes exactly.",
        ref="DESIGN.md 5.13",
        note="Known findings (each with a replayed witness): upus-recomputed (UPUS is a recognised section without a rich "
             "model and is rewritten), interior-gap-compacted (position lost, order and content kept), split-trig-sections.",
        tech="Coq proof (positional pass-through by induction over the section list; raw-entry round trip) + byte-exact model correspondence",
    ),
    "C11": dict(
        text="Coq theorems for EVERY rich content (any list lengths, integers, indices): if the trigger section is emitted "
             "at all it is a whole number of 2400-byte triggers with 16 conditions, 64 actions, 27 player flags (else the "
             "call raised); the rich encoders always lay out 255 / 64 / 64 / 512 slots; a value of a layout's shape encodes "
             "to exactly the layout's size and (in the MODEL; the decoded-level Python encoders check no list length, recorded finding "
             "decoded-section-lists-unchecked) a strict array of another length raises; WHOLE MAP: every table section "
             "RichChkIo.encode_chk emits (re-encoded, recomputed UPUS, appended SWNM/UPRP/UPUS) has its mandated size for any "
             "rich content in rich form, and whatever decode_chk returns is in rich form; a string table holding anything "
             "but NUL-free 7-bit text is never written; every string number written into the location, switch-name and sound tables "
             "refers to the emitted string table; the usage table agrees with the unit-property slots (byte k is 1 exactly when slot k was "
             "written from a set carrying index k+1, else the slot is all zero). The remaining reference rules (every written "
             "object id refers to an existing non-empty entry, offsets reach a NUL) are judged by an independent "
             "validator on degenerate scenarios; the pipeline model agrees with the implementation on all of them "
             "(bytes or exception).",
        ref="DESIGN.md 5.14",
        note="Defects found and repaired: 17+/65+ entries, out-of-range location index (twice), non 7-bit strings cut short. "
             "Known finding content-empty-object-referenced.",
        tech="Coq proof (size theorems over the layout language and the rich encoders) + byte-exact model correspondence + independent validator",
    ),
    "C12": dict(
        text="Coq theorems over tables regenerated from the source on every run: complete in-kernel sweeps of all 256 / 65536 "
             "flag numbers and all boolean vectors for the six flag codecs; an unbounded (all n : N) exactness theorem for "
             "every enum table; tied to the code by fail-closed translators and an exhaustive implementation-vs-extracted-"
             "model correspondence. Hit points: exact fixed-point theorems (both directions, quotient exact, within the "
             "28-digit Decimal context) for all raw values; AI tags: number->rich->number for EVERY u32 whose bytes are "
             "valid UTF-8, member iff exact tag, injectivity, and rich->number->rich (the number a script is written as decodes again to a "
             "script of the same name) - on top of a UTF-8 model proved to round-trip in BOTH directions for all code points; both "
             "tied by an exact-shape translator (translate_scalars.py) and correspondence on dense + boundary + "
             "neighbourhood inputs.",
        ref="DESIGN.md 5.4",
        note="Trusted: Coq kernel + vm_compute, translate_flags.py / translate_enums.py, extraction, CPython "
             "str.format/int(x,2)/Enum/Decimal semantics.",
        tech="Coq proof (finite sweeps by vm_compute lifted by lemmas; list induction for enums) + translator + exhaustive correspondence",
    ),
    "C13": dict(
        text="Coq theorem (Heap_proofs.exec_sound): any table of functions accepted by the ownership checker never writes "
             "to a cell that existed when the call started - any heap, arguments (aliased or not), oracle (branches, "
             "iteration counts, elements picked, unknown values, where an exception cuts the run) and fuel; lifted to "
             "histories of calls on arbitrary shared values, and to 'results are new objects'. The table is regenerated "
             "on every run from every function of src/richchk outside the file-system layer by tools/translate_heap.py "
             "(948 functions) and the checker is run on it inside Coq. Tie: the translator itself, its behaviour tables "
             "for builtins, a validation of translator+checker against observed Python behaviour on sample functions, "
             "and deep-snapshot runs of every public operation alone and in histories.",
        ref="DESIGN.md 5.19",
        note="Modelled, not verified: builtin/stdlib behaviour tables, scalar annotations, two memo caches "
             "(_sections_by_name, _ENUM_ID_MAP) excluded as caches, import-time registration functions.",
        tech="Coq proof (soundness of an ownership type checker for a heap language, induction on fuel) + source-to-Coq translator of every function + deep-snapshot differential runs",
    ),
    "C15": dict(
        text="Coq theorems by complete enumeration, inside the kernel, of a fault-enumerating semantics of hand models of "
             "the five file-writing entry points: with the destination existing and the flag at its DEFAULT (read from the "
             "source by a translator, and proved false) or False, every execution fails leaving every file as it was, the "
             "fault-free one with FileExistsError; with opt-in nothing but the destination changes. Tie: the finite grid "
             "entry point x destination {absent, existing, same as source} x flag {default, False, True} run on real "
             "files with the real StormLib and compared with the model.",
        ref="DESIGN.md 5.15",
        note="File contents are symbolic in the model. Trusted: translate_iodefaults.py; the hand models (checked by "
             "the exhaustive correspondence of C15/C16).",
        tech="Coq proof (exhaustive enumeration of a non-deterministic IO semantics, vm_compute) + defaults translator + exhaustive grid correspondence",
    ),
    "C16": dict(
        text="Coq theorem c16_atomic_all: for save_chk_to_mpq and add_audio_files_to_mpq (0..3 sounds, 1..3 audio files, "
             "destination absent/existing) EVERY execution of the fault-enumerating semantics (any primitive call failing "
             "before, after or part-way) leaves the base map and inputs unchanged, no temp/.part file, and the destination "
             "absent-as-before, its previous content, or a complete new map; plus a _refuted witness for the unrepaired "
             "plain-copy save. Tie: each of those fault points injected into the real code running the real StormLib "
             "(595 runs quick), observation compared with the model's execution for the same fault.",
        ref="DESIGN.md 5.16",
        note="Partial: StormLib's own on-disk behaviour when it fails midway and opening the base in write mode are "
             "covered only by the hash comparison; failing cleanup calls (os.remove of a temp file) and temp-file "
             "creation failing after creating are excluded (no program can clean up after them); SIGKILL is out of scope.",
        tech="Coq proof (exhaustive enumeration of fault schedules of an IO-language model) + exhaustive fault-injection correspondence",
    ),
    "C17": dict(
        text="PARTIAL. Coq theorems over abstract archives (member -> content) under the section hypothesis "
             "StormLibSpec (extract = lookup, add = replace-or-insert, compact = identity): the saved archive holds the "
             "encoder's bytes as scenario.chk, every other member unchanged, reading it back returns those bytes; "
             "imported audio sits under staredit\\wav\\<basename> and no other member moves. That the bundled libstorm "
             "satisfies StormLibSpec, and that durations are the files' true durations, is runtime behaviour: the "
             "check runs the real library over every base archive x {unedited, bigger, smaller} maps and audio sets "
             "and compares listings, per-member hashes and the PlayWav duration.",
        ref="DESIGN.md 5.17",
        note="StormLibSpec is a hypothesis (universally quantified premise, not an Axiom). Float arithmetic of the "
             "duration computation is not modelled.",
        tech="Coq proof under an explicit library hypothesis (partial) + correspondence against the real libstorm.so",
    ),
    "C18": dict(
        text="Coq theorem C18_registries_complete_from_any_entry_point: a model of Python's import machinery (sys.modules "
             "with partially initialised modules, parent packages first, from-import of a not-yet-bound name fails, "
             "registration at class-statement time, the sorted non-recursive directory scan) run over the per-module "
             "event lists regenerated from all 370 modules' source: for EVERY module as the first import the import "
             "succeeds and every loaded registry holds exactly the model classes' ids, each once. Finite and complete "
             "(vm_compute over all entry points, lifted). Tie: one fresh interpreter per module; final sys.modules and "
             "registry keys compared with the extracted model's state.",
        ref="DESIGN.md 5.18",
        note="Expected keys come from the model classes only (never from the live registries). NO_CONDITION (0) and "
             "UNKNOWN are placeholders without transcoders by design. Trusted: translate_imports.py.",
        tech="Coq proof (exhaustive finite evaluation of an import-semantics model, lifted) + source-to-Coq translator + per-module process correspondence",
    ),
    "C19": dict(
        text="Coq theorems: the model decoder is total and its fuel adequate for every byte string (OutOfFuel unreachable: "
             "each chunk-loop iteration consumes >= 8 bytes, each record >= 1), for the chunk loop and for every "
             "well-formed layout; and for EVERY byte string the decoder accepts, the model is writable and the written bytes "
             "decode to the very same model (C19_accepted_input_is_writable_and_stable: no well-formedness assumed - "
             "truncated last section, oversize size fields, over-long fixed sections, ragged record tails). Tie: correspondence on "
             "a malformed-input stream comparing result or error class, with a wall-clock limit per case for the Python "
             "loops' termination.",
        ref="DESIGN.md 5.3",
        note="Termination of the Python loops themselves is observed (per-case timeout) not proved; the model's is proved.",
        tech="Coq proof (fuel adequacy; decode-stability by induction over the layout language and the chunk loop) + translator + malformed-stream correspondence",
    ),
}

NOT_YET = "machinery for this property is not built yet in this snapshot (work in progress; see DESIGN.md section 9)"


def main():
    checks = []
    for pid in ALL:
        if pid not in CHECKS:
            continue
        c = CHECKS[pid]
        checks.append({
            "property_id": pid,
            "quick_cmd": f"/venv/bin/python tools/check.py {pid} --tier quick",
            "thorough_cmd": f"/venv/bin/python tools/check.py {pid} --tier thorough",
            "evidence_file": f"/verif/evidence/{pid}.json",
            "replay_cmd_template": f"/venv/bin/python tools/check.py {pid} --replay {{path}}",
            "engine": "coq-proof",
            "level_claimed": {"category": "proof", "text": c["text"], "design_ref": c["ref"]},
            "level_note": c["note"],
            "technique": c["tech"],
        })
    m = {
        "version": 1,
        "setup_cmd": "cd /verif && /venv/bin/python tools/setup.py",
        "hooks": {
            "guard": "RICHCHK_VERIF",
            "enable": "no source hooks: the harness imports /repo/src live and instruments from outside "
                      "(RICHCHK_VERIF=1 is exported by the harness but nothing in /repo reads it)",
            "baseline_off_cmd": "cd /repo && /venv/bin/python -m pytest -ra -q -p no:cacheprovider --timeout=900 "
                                "--continue-on-collection-errors",
            "source_commits": [],
            "add_only": True,
        },
        "engines": [{
            "name": "coq-proof", "path": "/verif/coq", "serves_properties": sorted(CHECKS),
            "kind_free_text": "Coq 8.16.1 development: lib/ spec/ model/ proofs/ props/, gen/ regenerated from /repo on "
                              "every run; extracted OCaml models (ocaml/driver.ml) for the correspondence runs",
        }],
        "checks": checks,
        "not_applicable": [{"property_id": p, "reason": NOT_YET} for p in ALL if p not in CHECKS],
        "notes": "25 fix: commits in /repo (7837be1 ... 2fd7a0c) and 19 recorded findings: see KNOWN_FINDINGS.txt and DESIGN.md section 10.4 / 10.7. Seeded breaking changes (133 in seven rounds) and what catches them: /verif/seeded and DESIGN.md section 10.6.",
    }
    Path("/verif/MANIFEST.json").write_text(json.dumps(m, indent=1) + "\n")


if __name__ == "__main__":
    main()
