#!/venv/bin/python
"""Known finding F18: two authored switches that claim one index with different names."""
import json, logging, sys
from pathlib import Path
sys.path.insert(0, str(Path(__file__).resolve().parent))
logging.disable(logging.CRITICAL)
import vlib, scenarios as SC  # noqa: E402


def main():
    from richchk.editor.richchk.rich_chk_editor import RichChkEditor
    from richchk.editor.richchk.rich_trig_editor import RichTrigEditor
    from richchk.model.richchk.str.rich_string import RichString
    from richchk.model.richchk.swnm.rich_switch import RichSwitch
    from richchk.model.richchk.trig.actions.set_switch_action import SetSwitchAction
    from richchk.model.richchk.trig.enums.switch_action import SwitchAction
    from richchk.model.richchk.trig.player_id import PlayerId
    from richchk.model.richchk.trig.rich_trig_section import RichTrigSection
    from richchk.model.richchk.trig.rich_trigger import RichTrigger
    rich = SC.load((vlib.REPO / "test/resources/test-chkjson-scx.chk").read_bytes())
    a = RichSwitch(_custom_name=RichString("alpha"), _index=200)
    b = RichSwitch(_custom_name=RichString("beta"), _index=200)
    t = [RichTrigger(_conditions=[], _actions=[SetSwitchAction(_switch=s, _switch_action=SwitchAction.SET)],
                     _players={PlayerId.PLAYER_1}) for s in (a, b)]
    trig = next(s for s in rich.chk_sections if isinstance(s, RichTrigSection))
    rich2 = RichChkEditor().replace_chk_section(RichTrigEditor.add_triggers(t, trig), rich)
    try:
        v = SC.SpecView(SC.save(rich2))
        print(json.dumps({"switch_200_name": v.switch(200)[1]}))
    except Exception as ex:  # noqa
        print(json.dumps({"raised": type(ex).__name__}))


main()
