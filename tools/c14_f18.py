#!/venv/bin/python
"""Known finding F18: two authored switches that claim one index with different names."""
import json, logging, sys
from pathlib import Path
sys.path.insert(0, str(Path(__file__).resolve().parent))
logging.disable(logging.CRITICAL)
import vlib, scenarios as SC  # noqa: E402


def main():
    from richchk.editor.richchk.rich_chk_editor import RichChkEditor
    from richchk.editor.richchk.rich_trig_editor import RichTrigEditor
    from richchk.model.richchk.str.rich_string import RichString
    from richchk.model.richchk.swnm.rich_switch import RichSwitch
    from richchk.model.richchk.trig.actions.set_switch_action import SetSwitchAction
    from richchk.model.richchk.trig.enums.switch_action import SwitchAction
    from richchk.model.richchk.trig.player_id import PlayerId
    from richchk.model.richchk.trig.rich_trig_section import RichTrigSection
    from richchk.model.richchk.trig.rich_trigger import RichTrigger
    raw = (vlib.REPO / "test/resources/test-chkjson-scx.chk").read_bytes()
    rich = SC.load(raw)
    mode = sys.argv[1] if len(sys.argv) > 1 else "0"
    if mode == "1":
        # variant: the map's own NAMED switch k, referred to by an authored bare index (no name)
        v0 = SC.SpecView(raw)
        k = next(i for i in range(256) if v0.switch(i)[1])
        t = [RichTrigger(_conditions=[], _actions=[SetSwitchAction(_switch=RichSwitch(_index=k), _switch_action=SwitchAction.SET)],
                         _players={PlayerId.PLAYER_1})]
        which = k
    else:
        a = RichSwitch(_custom_name=RichString("alpha"), _index=200)
        b = RichSwitch(_custom_name=RichString("beta"), _index=200)
        t = [RichTrigger(_conditions=[], _actions=[SetSwitchAction(_switch=s, _switch_action=SwitchAction.SET)],
                         _players={PlayerId.PLAYER_1}) for s in (a, b)]
        which = 200
    trig = next(s for s in rich.chk_sections if isinstance(s, RichTrigSection))
    rich2 = RichChkEditor().replace_chk_section(RichTrigEditor.add_triggers(t, trig), rich)
    try:
        v = SC.SpecView(SC.save(rich2))
        print(json.dumps({"switch": which, "name": v.switch(which)[1]}))
    except Exception as ex:  # noqa
        print(json.dumps({"raised": type(ex).__name__}))


main()
