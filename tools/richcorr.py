"""Shared pieces of the rich-layer checks: forcing the iteration order of the library's internal sets to
first-occurrence order (the order the model uses), running the implementation and the extracted model."""
from __future__ import annotations

import contextlib
import dataclasses

import scenarios as SC
import vlib


class OrderedBag(list):
    """a list that quacks like the sets the rebuilders use: union, and membership the way a set decides it
    (same hash AND ==; RichSwitch.__eq__ compares indices only while its hash includes the name)"""

    def __contains__(self, x):
        hx = hash(x)
        return any(hash(y) == hx and y == x for y in self)

    def union(self, *others):
        out = OrderedBag(self)
        for o in others:
            for x in (sorted(o, key=lambda s: (s.index is None, s.index)) if isinstance(o, (set, frozenset)) else o):
                if x not in out:
                    out.append(x)
        return out

    def add(self, x):
        if x not in self:
            self.append(x)


def ordered_walk(obj, cls, out=None):
    """the rebuilders' recursive walk, with first-occurrence order instead of a set"""
    if out is None:
        out = OrderedBag()
    if isinstance(obj, cls):
        out.add(obj)
    elif isinstance(obj, (list, tuple)):
        for e in obj:
            ordered_walk(e, cls, out)
    elif isinstance(obj, (set, frozenset)):
        for e in obj:  # the library's sets of enum members hold none of the walked classes
            ordered_walk(e, cls, out)
    elif isinstance(obj, dict):
        for k, v in obj.items():
            ordered_walk(k, cls, out)
            ordered_walk(v, cls, out)
    elif dataclasses.is_dataclass(obj) and not isinstance(obj, type):
        for f in dataclasses.fields(obj):
            ordered_walk(getattr(obj, f.name), cls, out)
    return out


@contextlib.contextmanager
def forced_orders():
    from richchk.editor.richchk.rich_mrgn_editor import RichMrgnEditor
    from richchk.editor.richchk.rich_uprp_editor import RichUprpEditor
    from richchk.io.richchk.lookups.mrgn.rich_mrgn_section_rebuilder import RichMrgnSectionRebuilder as MR
    from richchk.io.richchk.lookups.swnm.rich_swnm_rebuilder import RichSwnmRebuilder as SR
    from richchk.io.richchk.lookups.uprp.rich_uprp_rebuilder import RichUprpRebuilder as UR
    from richchk.model.richchk.mrgn.rich_location import RichLocation
    from richchk.model.richchk.mrgn.rich_mrgn_section import RichMrgnSection
    from richchk.model.richchk.rich_chk_section import RichChkSection
    from richchk.model.richchk.swnm.rich_switch import RichSwitch
    from richchk.model.richchk.swnm.rich_swnm_section import RichSwnmSection
    from richchk.model.richchk.uprp.rich_cuwp_slot import RichCuwpSlot
    from richchk.model.richchk.uprp.rich_uprp_section import RichUprpSection
    saved = []

    def patch(obj, attr, new):
        saved.append((obj, attr, obj.__dict__.get(attr)))
        setattr(obj, attr, new)

    def rich_sections(chk, skip):
        return [s for s in chk.chk_sections if isinstance(s, RichChkSection) and not isinstance(s, skip)]
    patch(MR, "find_all_rich_locations_in_rich_chk",
          staticmethod(lambda chk: ordered_walk(rich_sections(chk, RichMrgnSection), RichLocation)))
    patch(UR, "find_all_rich_cuwps",
          staticmethod(lambda chk: ordered_walk(rich_sections(chk, RichUprpSection), RichCuwpSlot)))
    patch(SR, "_find_all_switches_in_rich_chk",
          classmethod(lambda cls, chk: ordered_walk(rich_sections(chk, RichSwnmSection), RichSwitch)))
    patch(RichMrgnEditor, "_build_location_set", lambda self, locs: OrderedBag().union(locs))
    patch(RichUprpEditor, "_build_set_for_new_entries", lambda self, cs: OrderedBag().union(cs))
    try:
        yield
    finally:
        for obj, attr, old in reversed(saved):
            if old is None:
                delattr(obj, attr)
            else:
                setattr(obj, attr, old)


def impl_load_save(b: bytes, wav_meta=None):
    with forced_orders():
        return vlib.impl_result(lambda: list(SC.save(SC.load(b), wav_meta)))


def impl_two_cycles(b: bytes):
    with forced_orders():
        return vlib.impl_result(lambda: list(SC.save(SC.load(SC.save(SC.load(b))))))


def build_rich(ck: vlib.Check, extra_targets=(), props=None, gens=("layouts", "flags", "enums", "trig", "consts", "unitweapons")):
    st = ck.regen(list(gens))
    with vlib.build_lock():
        mb = all(v is None for v in st.values()) and ck.build(["model/RunRich.vo", "model/RunC05S.vo"])
        drv_ok = False
        if mb:
            drv_ok, out = vlib.build_driver("Rich")
            ck.oblige("extraction+driver:Rich", drv_ok, out)
            ok2, out2 = vlib.build_driver("C05S")
            ck.oblige("extraction+driver:C05S", ok2, out2)
        else:
            sb = ck.build(["model/RunC05S.vo"])
            if sb:
                vlib.build_driver("C05S")
        built = mb and (not extra_targets or ck.build(list(extra_targets)))
        props_ok = built and props and ck.check_props(props)
    return drv_ok


def chunk_diff(a: bytes, b: bytes):
    ca, cb = SC.chunks_of(a), SC.chunks_of(b)
    out = []
    for i, (x, y) in enumerate(zip(ca, cb)):
        if x != y:
            k = next((j for j in range(min(len(x[1]), len(y[1]))) if x[1][j] != y[1][j]), min(len(x[1]), len(y[1])))
            out.append(f"chunk {i} {x[0]!r}->{y[0]!r} sizes {len(x[1])}/{len(y[1])} first differing byte {k}")
    if len(ca) != len(cb):
        out.append(f"{len(ca)} chunks before, {len(cb)} after: {[y[0] for y in cb[len(ca):]]}")
    return out
