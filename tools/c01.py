"""C01 — binary CHK round trip is byte-exact."""
from __future__ import annotations

import json
import random
from pathlib import Path

import sections as S
import vlib
from vlib import T

PROP = "C01"


def fixtures() -> list[tuple[str, bytes]]:
    out = []
    for p in sorted((vlib.REPO / "test").rglob("*.chk")):
        out.append((str(p.relative_to(vlib.REPO)), p.read_bytes()))
    return out


def common_build(ck: vlib.Check, props_file: str, extra_targets=()):
    ck.regen(["layouts"])
    with vlib.build_lock():
        built = ck.build(["model/RunC01.vo", *extra_targets])
        props_ok = built and ck.check_props(props_file)
        drv_ok = False
        if built:
            drv_ok, out = vlib.build_driver("C01")
            ck.oblige("extraction+driver:C01", drv_ok, out)
    return built, props_ok, drv_ok


def run(ck: vlib.Check):
    n = 400 if ck.tier == "quick" else 12000
    ck.rule = ("well-formed CHKs from a grammar (0..8 chunks; every recognised section at legal sizes with random / "
               "saturated / zero field bytes; STR/STRx with shared, unsorted, interior, dangling offsets; unknown "
               "names incl. non-UTF-8, all-NUL / blank names and enum names without transcoder; duplicates; empty payloads) + repository "
               "fixtures; implementation enc(dec(bs)) vs extracted model vs bs. Distinct = distinct byte strings; "
               "non-trivial = at least one chunk.")
    built, props_ok, drv_ok = common_build(ck, "props/C01.v", ["proofs/C01_proofs.vo"])
    rng = ck.rng
    cases = [(f"fixture:{n_}", b, ["fixture"]) for n_, b in fixtures()]
    # stream-buffer boundaries: a chunk header that starts 0..8 bytes before a multiple of the usual buffer / block sizes
    for B in (4096, 8192, 16384, 65536):
        for k in range(0, 9):
            pad = B - k - 8                      # first chunk = 8-byte header + pad bytes: the next header starts at B - k
            b = S.frame(b"PAD0", bytes((7 * i + k) % 251 for i in range(pad))) + S.frame(b"VER ", b"\xcd\x00") + \
                S.frame(b"SWNM", bytes(1024)) + S.frame(b"TAIL", b"end")
            cases.append((f"boundary:{B}-{k}", b, ["buffer-boundary"]))
    # degenerate headers: a name of four equal bytes (NUL, blank, 0xFF) with an empty / one-byte / all-zero payload, in front of,
    # between and behind ordinary chunks (8 zero bytes are a legal chunk, not "padding")
    for nm in (b"\0\0\0\0", b"    ", b"\xff\xff\xff\xff", b"\0\0\0A"):
        for body in (b"", b"\0", bytes(8), b"x"):
            odd = S.frame(nm, body)
            plain = [S.frame(b"VER ", b"\xcd\x00"), S.frame(b"UPUS", bytes(range(64))), S.frame(b"TAIL", b"end")]
            for pos in range(4):
                cases.append((f"degenerate-header:{nm.hex()}:{len(body)}:{pos}", b"".join(plain[:pos] + [odd] + plain[pos:]),
                              ["degenerate-header"]))
            cases.append((f"degenerate-header:{nm.hex()}:{len(body)}:twice", odd + odd + plain[0] + odd, ["degenerate-header"]))
    for i in range(n):
        b, kinds = S.gen_wellformed_chk(rng)
        cases.append((f"gen:{i}", b, kinds))
    dist: dict[str, int] = {}
    impl_rt = []
    for label, b, kinds in cases:
        for k in kinds:
            dist[k] = dist.get(k, 0) + 1
        r = S.impl_roundtrip(b)
        impl_rt.append(r)
        ck.evaluations += 1
        if b:
            ck.note_case(b.hex())
        # the property itself on the implementation
        if r != [1, list(b)]:
            small = shrink_chunks(b)
            ck.violation(f"enc(dec(bs)) != bs for a well-formed CHK ({label})",
                         {"kind": "roundtrip", "label": label, "input_hex": small.hex(),
                          "result": describe(S.impl_roundtrip(small))}, True)
            break
    # the file API (decode_chk_file reads through the OS's buffered file object) on the boundary family and the fixtures
    import tempfile
    from richchk.io.chk.chk_io import ChkIo
    with tempfile.TemporaryDirectory(dir=str(vlib.BUILD)) as td:
        for label, b, kinds in cases:
            if "buffer-boundary" in kinds or "fixture" in kinds:
                pth = Path(td) / "in.chk"
                pth.write_bytes(b)
                r = vlib.impl_result(lambda: list(ChkIo().encode_chk_to_bytes(ChkIo().decode_chk_file(str(pth)))))
                ck.evaluations += 1
                if r != [1, list(b)]:
                    ck.violation(f"decode_chk_file -> encode_chk_to_bytes != the file's bytes ({label})",
                                 {"kind": "roundtrip-file", "label": label, "input_hex": b.hex() if len(b) < 200000 else None,
                                  "result": describe(r)}, True)
                    break
                # ... and the writing half: encode_chk_to_file onto a new path, and (with force_create) over an existing file
                # that is LONGER, shorter, and empty; whatever was there, the file then holds exactly the encoding
                bad = None
                for prior in (None, b + bytes(range(256)) * 20, b[: len(b) // 2], b""):
                    out = Path(td) / "out.chk"
                    if out.exists():
                        out.unlink()
                    if prior is not None:
                        out.write_bytes(prior)
                    w = vlib.impl_result(lambda: ChkIo().encode_chk_to_file(ChkIo().decode_chk_file(str(pth)), str(out),
                                                                            force_create=prior is not None) and 0)
                    ck.evaluations += 1
                    got = out.read_bytes() if out.exists() else None
                    if w[0] != 1 or got != b:
                        bad = {"prior": "absent" if prior is None else f"{len(prior)} bytes", "result": str(w),
                               "file_len": None if got is None else len(got), "expected_len": len(b)}
                        break
                if bad:
                    ck.violation(f"decode_chk_file -> encode_chk_to_file does not leave the file's bytes ({label}; destination "
                                 f"before the call: {bad['prior']}; {bad['file_len']} bytes after, expected {bad['expected_len']})",
                                 {"kind": "roundtrip-file-write", "label": label,
                                  "input_hex": b.hex() if len(b) < 200000 else None, **bad}, True)
                    break
    # one ChkIo object for a whole session, with FAILING calls in between (a decode of garbage; an encode that raises
    # after some sections were already written): every later call must answer as a fresh object does
    sess = session_results([b for _, b, _ in cases[:len(impl_rt)]])
    ck.evaluations += len(sess)
    for (label, b, _), fresh, s_ in zip(cases, impl_rt, sess):
        if s_ != fresh:
            ck.violation(f"one ChkIo object used for a session (with failing calls in between) answers differently from a "
                         f"fresh object on {label}",
                         {"kind": "session", "label": label, "input_hex": b.hex() if len(b) < 200000 else None,
                          "fresh": describe(fresh), "session": describe(s_)}, True)
            break
    ck.extra["section_kind_distribution"] = dist
    ck.extra["sizes"] = {"min": min(len(c[1]) for c in cases), "max": max(len(c[1]) for c in cases),
                         "mean": sum(len(c[1]) for c in cases) // len(cases)}
    if drv_ok:
        lines = [f"(2 {T(b)})" for _, b, _ in cases[:len(impl_rt)]]
        got = vlib.run_model(PROP, lines)
        mism = [i for i, (g, r) in enumerate(zip(got, impl_rt)) if g != T(r)]
        ck.corr_count("roundtrip: impl vs extracted model", len(lines), len(mism))
        if mism:
            i = mism[0]
            ck.notes.append(f"first mismatch {cases[i][0]}: input {cases[i][1][:64].hex()}... "
                            f"impl {T(impl_rt[i])[:200]} model {got[i][:200]}")
        # decoded structure (ties field meaning, shared with C06)
        layouts = S.load_layouts()
        sub = cases[: (60 if ck.tier == "quick" else 1500)]
        lines = [f"(1 {T(b)})" for _, b, _ in sub]
        got = vlib.run_model(PROP, lines)
        exp = [S.tree_text(S.impl_decode_tree(b, layouts)) for _, b, _ in sub]
        mism = [i for i, (g, e) in enumerate(zip(got, exp)) if g != e]
        ck.corr_count("decoded model: impl vs extracted model", len(lines), len(mism))
        if mism:
            i = mism[0]
            ck.notes.append(f"first decode mismatch {sub[i][0]}: input {sub[i][1][:64].hex()}")
        ck.sample({"input_hex": cases[-1][1][:80].hex(), "kinds": cases[-1][2], "roundtrip_equal": True})
        ck.sample({"input": cases[0][0], "bytes": len(cases[0][1])})


def failing_decoded_chk():
    """a decoded CHK whose SECOND section cannot be written (a switch string id beyond u32): the encode raises after
    the first section has been encoded"""
    import dataclasses
    good = S.frame(b"VER ", b"\xcd\x00") + S.frame(b"SWNM", bytes(1024))
    d = S.impl_decode(good)
    secs = list(d.decoded_chk_sections)
    secs[1] = dataclasses.replace(secs[1], _switch_string_ids=[2 ** 40] * 256)
    return dataclasses.replace(d, _decoded_chk_sections=secs)


def session_results(inputs):
    from richchk.io.chk.chk_io import ChkIo
    io = ChkIo()
    bad = failing_decoded_chk()
    out = []
    for i, b in enumerate(inputs):
        if i % 3 == 0:
            vlib.impl_result(lambda: io.encode_chk_to_bytes(bad))
        if i % 5 == 0:
            vlib.impl_result(lambda: io.decode_chk_binary_data(b"STR \xff\xff\xff\x7fxx"))
        out.append(vlib.impl_result(lambda: list(io.encode_chk_to_bytes(io.decode_chk_binary_data(b)))))
    return out


def describe(r):
    if r[0] == 0:
        return {"raised": r[1]}
    return {"output_hex": bytes(r[1]).hex()[:400], "len": len(r[1])}


def split_chunks(b: bytes):
    out, i = [], 0
    while i + 8 <= len(b):
        sz = int.from_bytes(b[i + 4:i + 8], "little")
        out.append(b[i:i + 8 + sz])
        i += 8 + sz
    return out


def shrink_chunks(b: bytes) -> bytes:
    """drop chunks while the round trip still differs"""
    chunks = split_chunks(b)
    changed = True
    while changed and len(chunks) > 1:
        changed = False
        for i in range(len(chunks)):
            cand = b"".join(chunks[:i] + chunks[i + 1:])
            if S.impl_roundtrip(cand) != [1, list(cand)]:
                chunks = chunks[:i] + chunks[i + 1:]
                changed = True
                break
    return b"".join(chunks)


def replay(path: str) -> int:
    rp = json.loads(Path(path).read_text())
    print("replaying:", rp.get("what"))
    if rp.get("kind") == "session" and rp.get("input_hex"):
        b = bytes.fromhex(rp["input_hex"])
        bad = session_results([b]) != [S.impl_roundtrip(b)]
        print("still differs from a fresh object" if bad else "no longer differs")
        return 1 if bad else 0
    if rp.get("kind") == "roundtrip-file-write" and rp.get("input_hex"):
        import tempfile
        from richchk.io.chk.chk_io import ChkIo
        b = bytes.fromhex(rp["input_hex"])
        with tempfile.TemporaryDirectory(dir=str(vlib.BUILD)) as td:
            src, out = Path(td) / "in.chk", Path(td) / "out.chk"
            src.write_bytes(b)
            out.write_bytes(b + bytes(range(256)) * 20)
            ChkIo().encode_chk_to_file(ChkIo().decode_chk_file(str(src)), str(out), force_create=True)
            ok, n = out.read_bytes() == b, out.stat().st_size
        print("written over a longer file:", "exactly the encoding" if ok else f"{n} bytes, expected {len(b)}")
        return 0 if ok else 1
    if "input_hex" in rp:
        b = bytes.fromhex(rp["input_hex"])
        r = S.impl_roundtrip(b)
        ok = r == [1, list(b)]
        print("input", b.hex()[:200], "->", "round trip exact" if ok else describe(r))
        return 0 if ok else 1
    print(json.dumps(rp, indent=1)[:3000])
    return 1
