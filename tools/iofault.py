"""Fault injection for the IO entry points (C15, C16, C17): every primitive call the models enumerate is wrapped
from OUTSIDE (no source hook); one run = one entry point call with at most one injected fault, on a private
directory with the real StormLib.  Run as a worker:  iofault.py <json job>  -> JSON observation."""
from __future__ import annotations

import contextlib
import hashlib
import json
import logging
import os
import shutil
import sys
import tempfile
from pathlib import Path

sys.path.insert(0, str(Path(__file__).resolve().parent))
logging.disable(logging.CRITICAL)
import vlib  # noqa: E402

RES = vlib.REPO / "test/resources/stormlib"
BASES = {0: RES / "example-starcraft-map.scm", 1: RES / "example-stacraft-map.scx", 3: RES / "test-chkjson-transcoder.scx"}
AUDIO = [RES / "wavs/monitorhumming5.wav", RES / "wavs/bandit1.ogg"]


class Injected(OSError):
    pass


class InjectedPermission(PermissionError, Injected):     # what Windows raises for a file that is open elsewhere
    pass


class InjectedNotFound(FileNotFoundError, Injected):
    pass


EXC = {"os": Injected, "perm": InjectedPermission, "notfound": InjectedNotFound}


class Injector:
    """counts the primitive calls in execution order; injects `kind` at step `target` (exception class `exc`), and
    optionally a second fault `kind2` at the later step `target2` (code that swallows the first fault and goes on)"""

    def __init__(self, target, kind, exc="os", target2=-1, kind2=0):
        self.target, self.kind, self.n, self.log = target, kind, 0, []
        self.exc, self.target2, self.kind2 = EXC[exc], target2, kind2

    def call(self, name, real, partial=None, after=None):
        i = self.n
        self.n += 1
        self.log.append(name)
        for tgt, kind, exc in ((self.target, self.kind, self.exc), (self.target2, self.kind2, Injected)):
            if i == tgt and tgt >= 0:
                if kind == 0:
                    raise exc(f"injected before {name}")
                if kind == 2 and partial is not None:
                    partial()
                    raise exc(f"injected part-way {name}")
                if after is not None:
                    return after(exc(f"injected after {name}"))     # the primitive fails itself, having taken effect
                real()
                raise exc(f"injected after {name}")
        return real()


@contextlib.contextmanager
def instrumented(inj: Injector):
    import richchk.io.chk.chk_io as chk_io_mod
    from richchk.editor.richchk.rich_wav_editor import RichWavEditor
    from richchk.io.chk.chk_io import ChkIo
    from richchk.io.mpq.starcraft_audio_files_metadata_io import StarCraftAudioFilesMetadataIo as MD
    from richchk.io.richchk.richchk_io import RichChkIo
    from richchk.mpq.stormlib.stormlib_wrapper import StormLibWrapper as W
    from richchk.util.fileutils import CrossPlatformSafeTemporaryNamedFile as T
    saved = []

    def patch(obj, attr, new):
        saved.append((obj, attr, getattr(obj, attr)))
        setattr(obj, attr, new)

    o_enter = T.__enter__
    import richchk.util.fileutils as futils

    def enter_failing_late(self, err):
        """the work file is created, then closing it reports an error: the failure happens INSIDE __enter__"""
        import builtins

        class LateFailure:
            def __init__(self, f):
                self.f = f

            def close(self):
                self.f.close()
                raise err
        futils.open = lambda *a, **k: LateFailure(builtins.open(*a, **k))
        try:
            return o_enter(self)
        finally:
            del futils.open
    patch(T, "__enter__", lambda self: inj.call("temp-create", lambda: o_enter(self), after=lambda err: enter_failing_late(self, err)))
    o_open, o_add, o_compact, o_extract, o_close = W.open_archive, W.add_file, W.compact_archive, W.extract_file, W.close_archive
    patch(W, "open_archive", lambda self, p, m: inj.call("arch-open", lambda: o_open(self, p, m)))
    patch(W, "add_file", lambda self, *a, **k: inj.call("arch-add", lambda: o_add(self, *a, **k)))
    patch(W, "compact_archive", lambda self, r: inj.call("arch-compact", lambda: o_compact(self, r)))
    patch(W, "close_archive", lambda self, r: inj.call("arch-close", lambda: o_close(self, r)))

    def extract(self, res, member, outfile, overwrite_existing=False):
        if os.path.exists(outfile) and not overwrite_existing:
            return o_extract(self, res, member, outfile, overwrite_existing=overwrite_existing)  # the guard, unfaulted

        def part():
            with open(outfile, "wb") as f:
                f.write(b"\x00" * 10)
        return inj.call("arch-extract", lambda: o_extract(self, res, member, outfile, overwrite_existing=overwrite_existing), part)
    patch(W, "extract_file", extract)
    o_copy = shutil.copyfile

    def copy(src, dst, **kw):
        def part():
            data = open(src, "rb").read()
            with open(dst, "wb") as f:
                f.write(data[: max(1, len(data) // 2)])
        return inj.call("copy", lambda: o_copy(src, dst, **kw), part)
    patch(shutil, "copyfile", copy)
    o_replace = os.replace
    patch(os, "replace", lambda a, b: inj.call("replace", lambda: o_replace(a, b)))
    o_enc, o_dec = RichChkIo.encode_chk, RichChkIo.decode_chk
    patch(RichChkIo, "encode_chk", lambda self, *a, **k: inj.call("pure-encode", lambda: o_enc(self, *a, **k)))
    patch(RichChkIo, "decode_chk", lambda self, *a, **k: inj.call("pure-decode", lambda: o_dec(self, *a, **k)))
    o_wd, o_od = MD._calculate_wav_file_duration_ms, MD._calculate_ogg_file_duration_ms
    patch(MD, "_calculate_wav_file_duration_ms", classmethod(lambda cls, p: inj.call("pure-duration", lambda: o_wd.__func__(cls, p))))
    patch(MD, "_calculate_ogg_file_duration_ms", classmethod(lambda cls, p: inj.call("pure-duration", lambda: o_od.__func__(cls, p))))
    o_aw = RichWavEditor.add_wav_files
    patch(RichWavEditor, "add_wav_files", lambda self, *a, **k: inj.call("pure-waveditor", lambda: o_aw(self, *a, **k)))
    o_etf = ChkIo.encode_chk_to_file

    def etf(self, decoded, path, force_create=False):
        if not force_create and os.path.exists(path):
            return o_etf(self, decoded, path, force_create=force_create)  # the guard, unfaulted

        def part():
            open(path, "wb").close()
        return inj.call("write-chk", lambda: o_etf(self, decoded, path, force_create=force_create), part)
    patch(ChkIo, "encode_chk_to_file", etf)
    try:
        yield
    finally:
        for obj, attr, old in reversed(saved):
            setattr(obj, attr, old)


def sha(p):
    if os.path.isdir(p):
        return "directory:" + ",".join(sorted(os.listdir(p)))
    return hashlib.sha1(Path(p).read_bytes()).hexdigest() if os.path.exists(p) else None


def valid_new_map(path, mpq_io) -> bool:
    try:
        chk = mpq_io.read_chk_from_mpq(str(path))
        return len(chk.chk_sections) > 3
    except Exception:
        return False


def run_job(job):
    """job: {ep, overwrite: true|false|"default", ns, na, dst: "absent"|"existing"|"same", step, kind}"""
    from richchk.io.chk.chk_io import ChkIo
    from richchk.io.mpq.starcraft_mpq_io_helper import StarCraftMpqIoHelper
    from richchk.model.mpq.stormlib.stormlib_archive_mode import StormLibArchiveMode
    from richchk.mpq.stormlib.stormlib_helper import StormLibHelper
    work = Path(tempfile.mkdtemp(prefix="verif-io-", dir=str(vlib.BUILD)))
    restore = {}
    tmpd = work / "tmp"
    tmpd.mkdir()
    old_tmp = tempfile.tempdir
    tempfile.tempdir = str(tmpd)
    try:
        base = work / "base.scx"
        shutil.copyfile(BASES[job["ns"]], base)
        audio = []
        for i in range(job.get("na", 0)):
            a = work / f"sound{i}{AUDIO[i % 2].suffix}"
            shutil.copyfile(AUDIO[i % 2], a)
            audio.append(str(a))
        if job.get("real") == "unreadable-sound" and audio:
            # a REAL archive failure, no injection: the first "sound" is a directory of that name, which the archive library
            # cannot read (SFileAddFileEx fails)
            os.remove(audio[0])
            os.mkdir(audio[0])
        dst = work / "out.scx"
        if job["dst"] == "existing":
            dst.write_bytes(b"previous content of the destination " * 50)
        elif job["dst"] == "empty":            # an existing file of 0 bytes is an existing file
            dst.write_bytes(b"")
        elif job["dst"] == "symlink":          # so is a link to one
            (work / "linktarget.bin").write_bytes(b"content behind the link " * 20)
            os.symlink(str(work / "linktarget.bin"), str(dst))
        elif job["dst"] == "same":
            dst = base
        elif job["dst"] == "dotdot":
            # the destination is NAMED through a symlinked directory followed by "..": physically it is
            # realdir/out.scx (absent); collapsing the ".." textually would name work/out.scx, somebody else's file
            (work / "realdir" / "sub").mkdir(parents=True)
            os.symlink(str(work / "realdir" / "sub"), str(work / "link"))
            dst = Path(os.path.join(str(work), "link", "..", "out.scx"))
        elif job["dst"] == "tilde":
            # a destination that STARTS with "~": for Python and for the C library that is a directory called "~" under the
            # working directory, never the home directory (only a shell expands it); a file of that name sits in $HOME
            home = work / "home"
            home.mkdir()
            (home / "out.scx").write_bytes(b"the file in the home directory")
            (work / "~").mkdir()
            restore["HOME"] = os.environ.get("HOME")
            restore["cwd"] = os.getcwd()
            os.environ["HOME"] = str(home)
            os.chdir(str(work))
            dst = Path("~/out.scx")
        elif job["dst"] == "hardlink":
            # the existing destination has a second name (a hard link): replacing the destination must not write through it
            dst.write_bytes(b"previous content of the destination " * 50)
            os.link(str(dst), str(work / "other-name.scx"))
        elif job["dst"] == "hardlink-base":
            # ... and that second name may be the base map itself (ln, a dedup tool)
            os.link(str(base), str(dst))
        elif job["dst"] in ("star", "nul"):
            # names the C library reads differently from Python: it stops at a NUL, and takes "name*master" for the file
            # "name".  The file in front of the special character exists and is somebody else's.
            dst = Path(str(work / "out.scx") + ("*" if job["dst"] == "star" else "\0.tmp"))
        elif job["dst"] == "brackets":
            # a file name holding glob metacharacters (the usual map tagging)
            dst = work / "[EUD] out [v1].scx"
        # bystanders: unrelated files next to the destination under the names a careless staging scheme would pick
        bystanders = {}
        # (... including names derived from what a process can know beforehand: its own pid, the user name)
        for suffix in (".part", ".tmp", ".bak", "~", ".new", ".partial", f".{os.getpid()}.part", f".{os.getpid()}.tmp",
                       f".{os.getpid()}"):
            q = work / ("out.scx" + suffix)
            q.write_bytes(b"somebody else's file " + suffix.encode())
            bystanders[q.name] = sha(q)
        if job["dst"] in ("dotdot", "star", "nul"):
            q = work / "out.scx"
            q.write_bytes(b"the file a textual collapse of '..' would hit")
            bystanders[q.name] = sha(q)
        if job["dst"] == "hardlink":
            bystanders["other-name.scx"] = sha(work / "other-name.scx")
        if job["dst"] == "tilde":
            bystanders["home/out.scx"] = sha(work / "home" / "out.scx")
        hidden = work / ".out.scx.swp"
        hidden.write_bytes(b"hidden bystander")
        bystanders[hidden.name] = sha(hidden)
        mpq_io = StarCraftMpqIoHelper.create_mpq_io()
        wav_io = StarCraftMpqIoHelper.create_wav_io()
        wrapper = StormLibHelper.load_stormlib()
        kw = {} if job["overwrite"] == "default" else {"overwrite_existing": bool(job["overwrite"])}
        rich = mpq_io.read_chk_from_mpq(str(base)) if job["ep"] == 3 else None
        decoded = ChkIo().decode_chk_binary_data((vlib.REPO / "test/resources/test-chkjson-scm.chk").read_bytes()) \
            if job["ep"] == 0 else None
        before = {"base": sha(base), "dst": sha(dst), "audio": [sha(a) for a in audio]}
        inj = Injector(job.get("step", -1), job.get("kind", 0), job.get("exc", "os"), job.get("step2", -1), job.get("kind2", 0))
        exc = None
        with instrumented(inj):
            try:
                if job["ep"] == 0:
                    k2 = {} if job["overwrite"] == "default" else {"force_create": bool(job["overwrite"])}
                    ChkIo().encode_chk_to_file(decoded, str(dst), **k2)
                elif job["ep"] == 1:
                    h = wrapper.open_archive(str(base), StormLibArchiveMode.STORMLIB_READ_ONLY)
                    inj.n, inj.log = 0, []   # the model of extract_file starts at the call itself
                    try:
                        wrapper.extract_file(h, "staredit\\scenario.chk", str(dst), **kw)
                    finally:
                        inj.target = -1
                        wrapper.close_archive(h)
                elif job["ep"] == 2:
                    mpq_io.extract_chk_from_mpq(str(base), str(dst), **kw)
                elif job["ep"] == 3:
                    mpq_io.save_chk_to_mpq(rich, str(base), str(dst), **kw)
                elif job["ep"] == 4:
                    wav_io.add_audio_files_to_mpq(audio, str(base), str(dst), **kw)
                else:
                    mpq_io.read_chk_from_mpq(str(base))
            except Injected:
                exc = "fault"
            except FileExistsError:
                exc = "FileExistsError"
            except FileNotFoundError:
                exc = "FileNotFoundError"
            except Exception as ex:  # noqa
                exc = "other:" + type(ex).__name__ + ":" + str(ex)[:80]
        after_dst = sha(dst)
        if job["dst"] == "same":
            dclass = "unchanged" if after_dst == before["dst"] else "changed"
        elif after_dst is None:
            dclass = "absent"
        elif after_dst == before["dst"]:
            dclass = "unchanged"
        elif job["ep"] in (3, 4):
            dclass = "new" if valid_new_map(dst, mpq_io) else "broken"
        elif job["ep"] in (1, 2):
            ok = False
            try:
                ChkIo().decode_chk_file(str(dst))
                ok = os.path.getsize(dst) > 100
            except Exception:
                pass
            dclass = "new" if ok else "broken"
        else:
            dclass = "new" if os.path.getsize(dst) > 100 else "broken"
        leftovers = sorted(os.listdir(tmpd)) + sorted(p.name for p in work.iterdir()
                                                       if p.name not in ("tmp", "base.scx", "out.scx", "out.scx*", "linktarget.bin", "realdir", "link", "[EUD] out [v1].scx", "home", "~", "other-name.scx") and not p.name.startswith("sound")
                                                       and p.name not in bystanders)
        disturbed = sorted(nm for nm, h in bystanders.items() if sha(work / nm) != h)
        if job["dst"] == "symlink" and dclass == "unchanged" and not os.path.islink(dst):
            dclass = "changed"
        return {"exc": exc, "base_unchanged": sha(base) == before["base"] if job["dst"] != "same" else None,
                "audio_unchanged": [sha(a) for a in audio] == before["audio"], "dst": dclass,
                "leftovers": leftovers, "bystanders_disturbed": disturbed, "steps": inj.n, "log": inj.log}
    finally:
        if "cwd" in restore:
            os.chdir(restore["cwd"])
            if restore["HOME"] is None:
                os.environ.pop("HOME", None)
            else:
                os.environ["HOME"] = restore["HOME"]
        tempfile.tempdir = old_tmp
        shutil.rmtree(work, ignore_errors=True)


if __name__ == "__main__":
    jobs = json.loads(sys.stdin.read())
    out = []
    for j in jobs:
        try:
            out.append(run_job(j))
        except Exception as ex:  # noqa
            import traceback
            out.append({"harness_error": traceback.format_exc()[-800:]})
    print(json.dumps(out))
