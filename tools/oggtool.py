"""Minimal Ogg reader / editor (pages, last granule position, Vorbis sample rate, page checksum): the independent source of a sound's true length."""
import struct
def _table():
    t=[]
    for i in range(256):
        r=i<<24
        for _ in range(8):
            r=((r<<1)^0x04c11db7) if r&0x80000000 else (r<<1)
            r&=0xffffffff
        t.append(r)
    return t
_T=_table()
def ogg_crc(data):
    c=0
    for x in data:
        c=((c<<8)&0xffffffff)^_T[((c>>24)&0xff)^x]
    return c
def pages(b):
    i=0; out=[]
    while i<len(b):
        assert b[i:i+4]==b'OggS', i
        nseg=b[i+26]; ln=27+nseg+sum(b[i+27:i+27+nseg])
        out.append((i,ln)); i+=ln
    return out
def info(b):
    i,ln=pages(b)[-1]
    k=b.find(b'\x01vorbis')
    return struct.unpack_from('<q',b,i+6)[0], struct.unpack_from('<I',b,k+12)[0]
def with_granule(b,n):
    c=bytearray(b); i,ln=pages(b)[-1]
    struct.pack_into('<q',c,i+6,n); c[i+22:i+26]=b'\0\0\0\0'
    struct.pack_into('<I',c,i+22,ogg_crc(bytes(c[i:i+ln])))
    return bytes(c)
