"""Python side of the binary-layer correspondence: decoded sections <-> positional trees,
generators of well-formed and malformed CHK byte strings, an independent spec reader."""
from __future__ import annotations

import importlib
import json
import pkgutil
import random
import struct

import vlib

W = {1: "B", 2: "H", 4: "I"}


def load_layouts():
    return json.loads((vlib.BUILD / "layouts.json").read_text())


_CLASSES = {}


def model_class(name: str):
    if not _CLASSES:
        import richchk.model.chk as mc
        for m in pkgutil.walk_packages(mc.__path__, mc.__name__ + "."):
            mod = importlib.import_module(m.name)
            for k, v in vars(mod).items():
                if isinstance(v, type) and v.__module__ == mod.__name__:
                    _CLASSES[k] = v
    return _CLASSES[name]


def name_bytes(s: str) -> bytes:
    return s.encode("utf-8", errors="surrogateescape")


# ---- Python object -> positional tree (nested lists / ints), guided by the generated layout ----------


def obj_to_tree(obj, lay):
    k = lay[0]
    if k == "prim":
        return int(obj)
    if k == "arr":
        return [obj_to_tree(x, lay[3]) for x in obj]
    if k == "many":
        return [obj_to_tree(x, lay[1]) for x in obj]
    if k == "chunk":
        return obj_to_tree(obj, lay[2])
    if k == "struct":
        return [obj_to_tree(getattr(obj, f), sub) for f, sub in lay[2]]
    raise ValueError(k)


def tree_to_obj(t, lay):
    """positional tree -> Python decoded object (field values may be out of range / wrong length on purpose)"""
    k = lay[0]
    if k == "prim":
        return t
    if k == "arr":
        return [tree_to_obj(x, lay[3]) for x in t]
    if k == "many":
        return [tree_to_obj(x, lay[1]) for x in t]
    if k == "chunk":
        return tree_to_obj(t, lay[2])
    if k == "struct":
        cls = model_class(lay[1])
        return cls(**{f: tree_to_obj(x, sub) for (f, sub), x in zip(lay[2], t)})
    raise ValueError(k)


def section_to_tree(sec, layouts):
    from richchk.model.chk.str.decoded_str_section import DecodedStrSection
    from richchk.model.chk.strx.decoded_strx_section import DecodedStrxSection
    from richchk.model.chk.unknown.decoded_unknown_section import DecodedUnknownSection
    if isinstance(sec, DecodedUnknownSection):
        return [3, list(name_bytes(sec.actual_section_name)), list(sec.chk_binary_data)]
    nm = sec.section_name().value
    if isinstance(sec, (DecodedStrSection, DecodedStrxSection)):
        return [1, [ord(c) for c in nm],
                [sec._number_of_strings, list(sec._string_offsets), [[ord(c) for c in s] for s in sec._strings]]]
    return [2, [ord(c) for c in nm], obj_to_tree(sec, layouts[nm]["dec"])]


def tree_to_section(t, layouts):
    from richchk.model.chk.str.decoded_str_section import DecodedStrSection
    from richchk.model.chk.strx.decoded_strx_section import DecodedStrxSection
    from richchk.model.chk.unknown.decoded_unknown_section import DecodedUnknownSection
    tag, name, body = t
    nm = bytes(name)
    if tag == 3:
        return DecodedUnknownSection(nm.decode("utf-8", errors="surrogateescape"), bytes(body))
    nm = nm.decode("ascii")
    if tag == 1:
        cls = DecodedStrSection if nm == "STR " else DecodedStrxSection
        return cls(_number_of_strings=body[0], _string_offsets=list(body[1]),
                   _strings=["".join(chr(c) for c in s) for s in body[2]])
    return tree_to_obj(body, layouts[nm]["enc"])


def tree_text(t) -> str:
    if isinstance(t, int):
        return str(t)
    return "(" + " ".join(tree_text(x) for x in t) + ")"


# ---- implementation entry points ------------------------------------------------------------------


def impl_decode(bs: bytes):
    from richchk.io.chk.chk_io import ChkIo
    return ChkIo().decode_chk_binary_data(bs)


def impl_encode(dchk) -> bytes:
    from richchk.io.chk.chk_io import ChkIo
    return ChkIo().encode_chk_to_bytes(dchk)


def impl_decode_tree(bs: bytes, layouts):
    return vlib.impl_result(lambda: [section_to_tree(s, layouts) for s in impl_decode(bs).decoded_chk_sections])


def impl_roundtrip(bs: bytes):
    return vlib.impl_result(lambda: list(impl_encode(impl_decode(bs))))


# ---- generators -----------------------------------------------------------------------------------

FIXED_SIZES = {"UNIS": 4048, "UNIx": 4168, "UPRP": 1280, "UPUS": 64, "SWNM": 1024, "WAV ": 2048}
ENUM_NO_TRANSCODER = ["TYP ", "VER ", "IVER", "IVE2", "VCOD", "IOWN", "OWNR"]


def rand_bytes(rng: random.Random, n: int) -> bytes:
    mode = rng.random()
    if mode < 0.15:
        return bytes(n)
    if mode < 0.3:
        return bytes([0xFF]) * n
    if mode < 0.45:  # small values, editor-like
        return bytes(rng.choice([0, 0, 0, 1, 2, 255]) for _ in range(n))
    return rng.randbytes(n)


def gen_str_payload(rng: random.Random, w: int, max_strings=12) -> bytes:
    """num + offsets (shared / unsorted / interior / dangling) + NUL-terminated 7-bit data"""
    n_phys = rng.choice([0, 1, 1, 2, 3, 5, max_strings])
    strs = []
    for _ in range(n_phys):
        ln = rng.choice([0, 1, 2, 3, 8, 20])
        strs.append(bytes(rng.randrange(1, 128) for _ in range(ln)))
    data = b"".join(s + b"\0" for s in strs)
    n_ids = rng.choice([0, 1, 2, 3, n_phys, n_phys + 2, 16])
    base = w + w * n_ids
    starts = []
    pos = 0
    for s in strs:
        starts.append(pos)
        pos += len(s) + 1
    offs = []
    for _ in range(n_ids):
        m = rng.random()
        if starts and m < 0.5:
            offs.append(base + rng.choice(starts))
        elif data and m < 0.8:
            offs.append(base + rng.randrange(len(data)))  # interior
        elif m < 0.9:
            offs.append(rng.randrange(0, 2 ** (8 * w)))  # dangling / anywhere
        else:
            offs.append(0)
    code = W[w]
    return struct.pack(code, n_ids) + b"".join(struct.pack(code, o) for o in offs) + data


def gen_section(rng: random.Random, kinds=None):
    """(name bytes, payload bytes, kind label)"""
    kind = rng.choice(kinds or ["MRGN", "TRIG", "UNIS", "UNIx", "UPRP", "UPUS", "SWNM", "WAV ", "STR ", "STRx",
                               "unk-ascii", "unk-enum", "unk-bytes", "unk-utf8", "unk-empty", "unk-near", "unk-near"])
    if kind in FIXED_SIZES:
        return kind.encode(), rand_bytes(rng, FIXED_SIZES[kind]), kind
    if kind == "MRGN":
        n = rng.choice([0, 1, 3, 64, 255])
        return b"MRGN", rand_bytes(rng, 20 * n), kind
    if kind == "TRIG":
        n = rng.choice([0, 1, 1, 2, 3])
        return b"TRIG", b"".join(rand_bytes(rng, 2400) for _ in range(n)), kind
    if kind == "STR ":
        return b"STR ", gen_str_payload(rng, 2), kind
    if kind == "STRx":
        return b"STRx", gen_str_payload(rng, 4), kind
    if kind == "unk-near":
        # the neighbourhood of the recognised names: a name lookup that is too tolerant (stripped, case-folded,
        # prefix-matched, NUL- or tab-padded) shows exactly here.  The payload is sometimes a legal body of the
        # neighbouring section, sometimes not.
        near = rng.choice([b"STR ", b"STRx", b"MRGN", b"TRIG", b"UNIS", b"UNIx", b"UPRP", b"UPUS", b"SWNM", b"WAV ", b"VER ", b"TYPE"])
        how = rng.randrange(8)
        if how == 0:
            name = near[:3] + rng.choice([b"\t", b"\n", b"\r", b"\x00", b"\x0b", b"\x0c", b"\xa0", b"_"])
        elif how == 1:
            name = (b" " + near.strip())[:4].ljust(4, b" ")
        elif how == 2:
            name = near.swapcase()
        elif how == 3:
            name = near.lower()
        elif how == 4:
            name = bytes([near[0] ^ 0x20]) + near[1:]
        elif how == 5:
            name = near[1:] + near[:1]
        elif how == 6:
            name = (rng.choice([b"\n", b"\t", b"\r"]) + near.strip())[:4].ljust(4, b" ")
        else:
            pos = rng.randrange(4)
            name = near[:pos] + bytes([near[pos] ^ (1 << rng.randrange(8))]) + near[pos + 1:]
        if rng.random() < 0.5:
            body = gen_section(rng, [near.decode()])[1] if near.decode() in ("STR ", "STRx", "MRGN", "TRIG", "UNIS", "UNIx", "UPRP", "UPUS", "SWNM", "WAV ") else rand_bytes(rng, 7)
            if name not in (b"STR ", b"STRx", b"MRGN", b"TRIG", b"UNIS", b"UNIx", b"UPRP", b"UPUS", b"SWNM", b"WAV "):
                return name, body, kind
    elif kind == "unk-ascii":
        name = bytes(rng.randrange(32, 127) for _ in range(4))
    elif kind == "unk-enum":
        name = rng.choice(ENUM_NO_TRANSCODER).encode()
    elif kind == "unk-utf8":
        name = rng.choice(["éAB", "éé", "€A", "\U0001F600", "AéB"]).encode("utf-8")
        name = (name + b"AAAA")[:4]
    elif kind == "unk-empty":
        return bytes(rng.randrange(65, 91) for _ in range(4)), b"", kind
    else:
        name = rng.randbytes(4)
    if name in (b"STR ", b"STRx", b"MRGN", b"TRIG", b"UNIS", b"UNIx", b"UPRP", b"UPUS", b"SWNM", b"WAV "):
        name = b"QQQQ"
    return name, rand_bytes(rng, rng.choice([0, 1, 7, 64, 300])), kind


def frame(name: bytes, payload: bytes) -> bytes:
    return name + struct.pack("I", len(payload)) + payload


def gen_wellformed_chk(rng: random.Random, max_chunks=8):
    n = rng.choice([0, 1, 1, 2, 3, 4, max_chunks])
    parts, kinds = [], []
    pool = None
    if rng.random() < 0.3:
        pool = ["MRGN", "UPUS", "STR ", "unk-ascii", "unk-bytes", "unk-empty"]  # cheap, many duplicates
    for _ in range(n):
        name, payload, kind = gen_section(rng, pool)
        parts.append(frame(name, payload))
        kinds.append(kind)
        if rng.random() < 0.15:  # duplicated section
            parts.append(parts[-1])
            kinds.append(kind)
    return b"".join(parts), kinds


def gen_malformed_chk(rng: random.Random, seeds: list[bytes]):
    """(bytes, label): truncations, corruptions, wrong sizes, random data"""
    m = rng.random()
    if m < 0.15:
        return rng.randbytes(rng.choice([1, 2, 3, 4, 5, 7, 8, 9, 12, 40, 200])), "random"
    base, _ = gen_wellformed_chk(rng, 4) if not seeds or rng.random() < 0.7 else (rng.choice(seeds), None)
    if not base:
        base = frame(b"ABCD", b"xyz")
    if m < 0.4:
        cut = rng.randrange(0, len(base))
        return base[:cut], "truncated"
    if m < 0.6:
        b = bytearray(base)
        for _ in range(rng.choice([1, 1, 2, 5])):
            i = rng.randrange(len(b))
            b[i] = rng.choice([0, 0x80, 0xFF, b[i] ^ (1 << rng.randrange(8))])
        return bytes(b), "corrupted"
    if m < 0.75:  # a size field larger than the remaining data / or smaller
        name, payload, kind = gen_section(rng)
        sz = rng.choice([len(payload) + 1, len(payload) + 1000, 2 ** 32 - 1, max(0, len(payload) - 1), 2 ** 31])
        return name + struct.pack("I", sz) + payload + (base if rng.random() < 0.5 else b""), "bad-size"
    if m < 0.9:  # fixed-size section too short / too long, MRGN/TRIG not a multiple
        kind = rng.choice(list(FIXED_SIZES) + ["MRGN", "TRIG"])
        size = FIXED_SIZES.get(kind, 20 if kind == "MRGN" else 2400)
        n = rng.choice([0, 1, size - 1, size + 1, size + 17, 2 * size, size // 2])
        return frame(kind.encode(), rand_bytes(rng, n)) + (base if rng.random() < 0.3 else b""), "bad-fixed"
    # string section problems: missing NUL, 8-bit bytes, count larger than data
    w = rng.choice([2, 4])
    p = bytearray(gen_str_payload(rng, w))
    how = rng.random()
    if how < 0.25 and p:
        p = p[:-1] if p[-1] == 0 else p + b"x"
    elif how < 0.5:
        p += bytes([rng.randrange(128, 256)]) + b"\0"
    elif how < 0.75:
        # a structurally well-formed table whose strings hold 8-bit text: valid multi-byte UTF-8 (Remastered /
        # Korean maps), Latin-1 / CP949 bytes that are not UTF-8, and mixtures
        words = [b"caf\xc3\xa9 bar", "\u20ac5".encode(), "\U0001F600".encode(), "\ud55c\uae00".encode(), b"caf\xe9", b"\xc7\xd1\xb1\xdb",
                 b"a\xc3", b"\xa9b", "\u00e9".encode() * 3, b"plain"]
        strs = [rng.choice(words) for _ in range(rng.choice([1, 2, 4]))]
        n_ids = len(strs) + rng.choice([0, 1])
        base = w + w * n_ids
        offs, pos = [], 0
        for s_ in strs:
            offs.append(base + pos)
            pos += len(s_) + 1
        offs += [offs[0]] * (n_ids - len(strs))
        p = bytearray(struct.pack(W[w], n_ids) + b"".join(struct.pack(W[w], o) for o in offs) + b"".join(s_ + b"\0" for s_ in strs))
    else:
        p[0:w] = struct.pack(W[w], rng.choice([2 ** (8 * w) - 1, 1000]))
    return frame(b"STR " if w == 2 else b"STRx", bytes(p)), "bad-str"


# ---- an independent reader of the specification (shares no code with richchk) ----------------------
# Hand-written from the format description; names are the library's dataclass field names because the
# property says "a decoded model means what its field names say".

def _st(cls, *fields):
    return ("struct", cls, list(fields))


LOC = _st("DecodedLocation", ("_left_x1", 4), ("_top_y1", 4), ("_right_x2", 4), ("_bottom_y2", 4),
          ("_string_id", 2), ("_elevation_flags", 2))
CUWP = _st("DecodedCuwpSlot", ("_valid_special_properties_flags", 2), ("_valid_unit_properties_flags", 2),
           ("_owner_player", 1), ("_hitpoints_percentage", 1), ("_shieldpoints_percentage", 1),
           ("_energypoints_percentage", 1), ("_resource_amount", 4), ("_units_in_hangar", 2), ("_flags", 2),
           ("_padding", 4))
CONDITION = _st("DecodedTriggerCondition", ("_location_id", 4), ("_group", 4), ("_quantity", 4), ("_unit_id", 2),
                ("_numeric_comparison_operation", 1), ("_condition_id", 1), ("_numeric_comparand_type", 1),
                ("_flags", 1), ("_mask_flag", 2))
ACTION = _st("DecodedTriggerAction", ("_location_id", 4), ("_text_string_id", 4), ("_wav_string_id", 4), ("_time", 4),
             ("_first_group", 4), ("_second_group", 4), ("_action_argument_type", 2), ("_action_id", 1),
             ("_quantifier_or_switch_or_order", 1), ("_flags", 1), ("_padding", 1), ("_mask_flag", 2))
EXECUTION = _st("DecodedPlayerExecution", ("_execution_flags", 4), ("_player_flags", ("arr", 27, 1)),
                ("_current_action_index", 1))
TRIGGER = _st("DecodedTrigger", ("_conditions", ("arr", 16, CONDITION)), ("_actions", ("arr", 64, ACTION)),
              ("_player_execution", EXECUTION))


def _unit_settings(cls, nw):
    return _st(cls, ("_unit_default_settings_flags", ("arr", 228, 1)), ("_unit_hitpoints", ("arr", 228, 4)),
               ("_unit_shieldpoints", ("arr", 228, 2)), ("_unit_armorpoints", ("arr", 228, 1)),
               ("_unit_build_times", ("arr", 228, 2)), ("_unit_mineral_costs", ("arr", 228, 2)),
               ("_unit_gas_costs", ("arr", 228, 2)), ("_unit_string_ids", ("arr", 228, 2)),
               ("_unit_base_weapon_damages", ("arr", nw, 2)), ("_unit_upgrade_weapon_damages", ("arr", nw, 2)))


SPEC_FULL = {
    "MRGN": _st("DecodedMrgnSection", ("_locations", ("many", LOC))),
    "TRIG": _st("DecodedTrigSection", ("_triggers", ("many", TRIGGER))),
    "UNIS": _unit_settings("DecodedUnisSection", 100),
    "UNIx": _unit_settings("DecodedUnixSection", 130),
    "UPRP": _st("DecodedUprpSection", ("_cuwp_slots", ("arr", 64, CUWP))),
    "UPUS": _st("DecodedUpusSection", ("_cuwp_slots_used", ("arr", 64, 1))),
    "SWNM": _st("DecodedSwnmSection", ("_switch_string_ids", ("arr", 256, 4))),
    "WAV ": _st("DecodedWavSection", ("_wav_string_ids", ("arr", 512, 4))),
}


def spec_size(sp) -> int:
    if isinstance(sp, int):
        return sp
    if sp[0] == "arr":
        return sp[1] * spec_size(sp[2])
    if sp[0] == "struct":
        return sum(spec_size(f[1]) for f in sp[2])
    raise ValueError(sp[0])


def spec_parse(sp, b: bytes, off: int):
    """value read at absolute offset `off` following the format description"""
    if isinstance(sp, int):
        return int.from_bytes(b[off:off + sp], "little"), off + sp
    if sp[0] == "arr":
        out = []
        for _ in range(sp[1]):
            v, off = spec_parse(sp[2], b, off)
            out.append(v)
        return out, off
    if sp[0] == "many":
        out = []
        sz = spec_size(sp[1])
        while off + sz <= len(b):
            v, off = spec_parse(sp[1], b, off)
            out.append(v)
        return out, off
    if sp[0] == "struct":
        d = {}
        for name, sub in sp[2]:
            d[name], off = spec_parse(sub, b, off)
        return d, off
    raise ValueError(sp[0])


def spec_write(sp, v) -> bytes:
    if isinstance(sp, int):
        return int(v).to_bytes(sp, "little")
    if sp[0] in ("arr", "many"):
        return b"".join(spec_write(sp[-1], x) for x in v)
    if sp[0] == "struct":
        return b"".join(spec_write(sub, v[name]) for name, sub in sp[2])
    raise ValueError(sp[0])


def spec_build(sp, v):
    """spec value -> library object, by field NAME"""
    if isinstance(sp, int):
        return v
    if sp[0] in ("arr", "many"):
        return [spec_build(sp[-1], x) for x in v]
    if sp[0] == "struct":
        return model_class(sp[1])(**{name: spec_build(sub, v[name]) for name, sub in sp[2]})
    raise ValueError(sp[0])


def spec_mismatch(sp, v, obj, path=""):
    """first path at which the library object differs from the spec value (None when equal)"""
    if isinstance(sp, int):
        return None if obj == v else f"{path}: spec {v} != decoded {obj}"
    if sp[0] in ("arr", "many"):
        if len(obj) != len(v):
            return f"{path}: spec has {len(v)} elements, decoded {len(obj)}"
        for i, (x, o) in enumerate(zip(v, obj)):
            m = spec_mismatch(sp[-1], x, o, f"{path}[{i}]")
            if m:
                return m
        return None
    if sp[0] == "struct":
        for name, sub in sp[2]:
            if not hasattr(obj, name):
                return f"{path}.{name}: decoded object has no such field"
            m = spec_mismatch(sub, v[name], getattr(obj, name), f"{path}.{name}")
            if m:
                return m
        return None
    raise ValueError(sp[0])


def spec_read_str(name: str, p: bytes):
    w = 2 if name == "STR " else 4
    n = int.from_bytes(p[:w], "little")
    offs = [int.from_bytes(p[w + i * w: w + (i + 1) * w], "little") for i in range(n)]
    data = p[w + w * n:]
    strs = [s.decode("latin-1") for s in data.split(b"\0")[:-1]]
    return n, offs, strs


def spec_resolve_string(name: str, p: bytes, string_id: int):
    """text of string number `string_id` (1-based) by the format's own rule: offset from the section start, to NUL"""
    w = 2 if name == "STR " else 4
    n = int.from_bytes(p[:w], "little")
    if not (1 <= string_id <= n):
        return None
    off = int.from_bytes(p[w + (string_id - 1) * w: w + string_id * w], "little")
    if off >= len(p):
        return None
    end = p.find(b"\0", off)
    if end < 0:
        return None
    return p[off:end]
