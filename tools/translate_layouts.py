"""Translator: the eight table-like binary section transcoders -> coq/gen/GenLayouts.v
(+ build/layouts.json for the Python side of the correspondence).

decode side: a small symbolic executor over the accepted subset
    S = BytesIO(x)                                  stream alias
    v = struct.unpack("<c>", S.read(<w>))[0]        Prim w     (struct.calcsize(c) must equal w)
    v = [<that> for _ in range(N)]                  Arr N (Prim w)
    v = cls._helper(S) / self._helper(S)            layout of the helper's return value (same stream)
    lst = []  /  lst: list[T] = []
    for _ in range(N): <reads>; lst.append(E)       Arr N (layout of E)
    while S.tell() != len(x): <reads>; lst.append(E)   Many (layout of E)
    lst.append(self._helper(S.read(K)))             Chunk K (layout of helper on a fresh stream)
    counters (i = 0, i += 1) that never reach the result are ignored
    return Cls(kw=v, ...) / return v                fields are emitted in READ order; every read is used exactly once
encode side:
    data = b"" ; data += E ; return data | return E + E + ...
    E ::= struct.pack("<c>", o.attr) | struct.pack("{}<c>".format(N), *o.attr)   (strict count)
        | struct.pack("{}<c>".format(len(o.attr)), *o.attr)                        (any count)
        | cls._helper(o.attr) | cls._helper(o)
    for x in o.attr: data += ...                    loop (any count)
Anything else raises TranslatorError (fail-closed)."""
from __future__ import annotations

import ast
import importlib
import json
import re
import struct
from pathlib import Path

from vlib import BUILD, GEN_HEADER, PKG, TranslatorError, coq_bool, coq_string

OUTPUTS = ["gen/GenLayouts.v"]

# (Coq identifier suffix, module, class); the 4-character wire name is read from the live registry
SECTIONS = [
    ("MRGN", "chk_mrgn_transcoder", "ChkMrgnTranscoder"),
    ("TRIG", "chk_trig_transcoder", "ChkTrigTranscoder"),
    ("UNIS", "chk_unis_transcoder", "ChkUnisTranscoder"),
    ("UNIx", "chk_unix_transcoder", "ChkUnixTranscoder"),
    ("UPRP", "chk_uprp_transcoder", "ChkUprpTranscoder"),
    ("UPUS", "chk_upus_transcoder", "ChkUpusTranscoder"),
    ("SWNM", "chk_swnm_transcoder", "ChkSwnmTranscoder"),
    ("WAV", "chk_wav_transcoder", "ChkWavTranscoder"),
]
STRING_SECTIONS = [("chk_str_transcoder", "ChkStrTranscoder", 2), ("chk_strx_transcoder", "ChkStrxTranscoder", 4)]


def registry():
    """{wire name: transcoder class name} of the live ChkSectionTranscoderFactory"""
    from richchk.transcoder.chk.chk_section_transcoder_factory import ChkSectionTranscoderFactory
    out = {}
    for k, v in ChkSectionTranscoderFactory.transcoders.items():
        name = k.value
        if not isinstance(name, str) or not all(32 <= ord(c) < 127 for c in name):
            raise TranslatorError(f"section name {name!r} is not printable ASCII")
        out[name] = v.__name__
    return out
TDIR = PKG / "transcoder/chk/transcoders"


def err(msg, node=None):
    if node is not None:
        msg += " :: " + ast.unparse(node)[:160]
    raise TranslatorError(msg)


class Ctx:
    def __init__(self, modname: str, clsname: str):
        self.path = TDIR / (modname + ".py")
        self.tree = ast.parse(self.path.read_text())
        self.cls = next((n for n in self.tree.body if isinstance(n, ast.ClassDef) and n.name == clsname), None)
        if self.cls is None:
            err(f"class {clsname} not found in {self.path}")
        self.live_mod = importlib.import_module(f"richchk.transcoder.chk.transcoders.{modname}")
        self.live_cls = getattr(self.live_mod, clsname)

    def func(self, name) -> ast.FunctionDef:
        for f in self.cls.body:
            if isinstance(f, ast.FunctionDef) and f.name == name:
                return f
        err(f"method {name} not found")

    def const(self, e: ast.expr) -> int:
        if isinstance(e, ast.Constant) and isinstance(e.value, int) and not isinstance(e.value, bool):
            return e.value
        if isinstance(e, ast.Name) and isinstance(getattr(self.live_mod, e.id, None), int):
            return getattr(self.live_mod, e.id)
        if (isinstance(e, ast.Attribute) and isinstance(e.value, ast.Name) and e.value.id in ("self", "cls")
                and isinstance(getattr(self.live_cls, e.attr, None), int)):
            return getattr(self.live_cls, e.attr)
        err("not an integer constant", e)


# ---------------------------------------------------------------------------------------
# decode


def _is_read(e, streams):
    """struct.unpack(C, S.read(W))[0] -> w"""
    if not (isinstance(e, ast.Subscript) and isinstance(e.slice, ast.Constant) and e.slice.value == 0):
        return None
    c = e.value
    if not (isinstance(c, ast.Call) and isinstance(c.func, ast.Attribute) and c.func.attr == "unpack"
            and isinstance(c.func.value, ast.Name) and c.func.value.id == "struct" and len(c.args) == 2
            and not c.keywords):
        return None
    fmt, rd = c.args
    if not (isinstance(fmt, ast.Constant) and isinstance(fmt.value, str) and fmt.value in ("B", "H", "I")):
        err("unpack format is not one of B/H/I", e)
    if not (isinstance(rd, ast.Call) and isinstance(rd.func, ast.Attribute) and rd.func.attr == "read"
            and isinstance(rd.func.value, ast.Name) and rd.func.value.id in streams and len(rd.args) == 1):
        err("unpack does not read from the section stream", e)
    return fmt.value, rd.args[0]


class DecodeExec:
    """Symbolically executes one function body; values are (seq_no, layout)."""

    def __init__(self, ctx: Ctx):
        self.ctx = ctx
        self.seq = 0

    def nxt(self):
        self.seq += 1
        return self.seq

    def read_layout(self, e, streams):
        r = _is_read(e, streams)
        if r is None:
            return None
        code, wexpr = r
        w = self.ctx.const(wexpr)
        if struct.calcsize(code) != w:
            err(f"read width {w} does not match format {code}", e)
        return ("prim", w)

    def run_function(self, fname: str, arg_is_stream: bool, depth=0):
        if depth > 6:
            err("helper recursion too deep")
        fn = self.ctx.func(fname)
        params = [a.arg for a in fn.args.args if a.arg not in ("self", "cls")]
        if len(params) != 1:
            err(f"{fname}: expected exactly one parameter")
        streams = {params[0]} if arg_is_stream else set()
        data_names = set() if arg_is_stream else {params[0]}
        env: dict[str, tuple[int, tuple]] = {}
        lists: dict[str, list] = {}
        counters: set[str] = set()
        return self.run_block(fn.body, streams, data_names, env, lists, counters, top=True, depth=depth)

    def value_layout(self, e, env, used, streams, depth):
        """layout of an expression that builds a decoded object"""
        if isinstance(e, ast.Name):
            if e.id not in env:
                err("unknown name in result", e)
            if e.id in used:
                err("a read value is used twice", e)
            used.add(e.id)
            return env[e.id]
        if isinstance(e, ast.Call) and isinstance(e.func, ast.Name) and not e.args:
            fields = []
            for kw in e.keywords:
                if kw.arg is None:
                    err("**kwargs", e)
                sn, lay = self.value_layout(kw.value, env, used, streams, depth)
                fields.append((sn, kw.arg, lay))
            fields.sort()
            if not fields:
                err("constructor without fields", e)
            return fields[0][0], ("struct", e.func.id, [(n, l) for _, n, l in fields])
        err("result expression outside the accepted subset", e)

    def helper_call(self, e, streams, depth):
        """cls._h(S) -> layout on same stream; self._h(S.read(K)) -> chunk"""
        if not (isinstance(e, ast.Call) and isinstance(e.func, ast.Attribute) and isinstance(e.func.value, ast.Name)
                and e.func.value.id in ("self", "cls") and len(e.args) == 1 and not e.keywords):
            return None
        a = e.args[0]
        if isinstance(a, ast.Name) and a.id in streams:
            sn = self.nxt()
            _, lay = self.run_function(e.func.attr, True, depth + 1)
            return sn, lay
        if (isinstance(a, ast.Call) and isinstance(a.func, ast.Attribute) and a.func.attr == "read"
                and isinstance(a.func.value, ast.Name) and a.func.value.id in streams and len(a.args) == 1):
            k = self.ctx.const(a.args[0])
            sn = self.nxt()
            _, lay = self.run_function(e.func.attr, False, depth + 1)
            return sn, ("chunk", k, lay)
        return None

    def run_block(self, body, streams, data_names, env, lists, counters, top, depth):
        result = None
        for st in body:
            if isinstance(st, ast.Expr) and isinstance(st.value, ast.Constant):
                continue
            tgt, val = None, None
            if isinstance(st, ast.Assign) and len(st.targets) == 1 and isinstance(st.targets[0], ast.Name):
                tgt, val = st.targets[0].id, st.value
            elif isinstance(st, ast.AnnAssign) and isinstance(st.target, ast.Name) and st.value is not None:
                tgt, val = st.target.id, st.value
            if tgt is not None:
                if (isinstance(val, ast.Call) and isinstance(val.func, ast.Name) and val.func.id == "BytesIO"
                        and len(val.args) == 1 and isinstance(val.args[0], ast.Name) and val.args[0].id in data_names):
                    streams.add(tgt)
                    continue
                if isinstance(val, ast.List) and not val.elts:
                    lists[tgt] = None
                    continue
                if isinstance(val, ast.Constant) and isinstance(val.value, int):
                    counters.add(tgt)
                    continue
                lay = self.read_layout(val, streams)
                if lay is not None:
                    env[tgt] = (self.nxt(), lay)
                    continue
                if (isinstance(val, ast.ListComp) and len(val.generators) == 1 and not val.generators[0].ifs
                        and isinstance(val.generators[0].iter, ast.Call)
                        and isinstance(val.generators[0].iter.func, ast.Name)
                        and val.generators[0].iter.func.id == "range" and len(val.generators[0].iter.args) == 1):
                    inner = self.read_layout(val.elt, streams)
                    if inner is None:
                        err("list comprehension element is not a read", st)
                    n = self.ctx.const(val.generators[0].iter.args[0])
                    env[tgt] = (self.nxt(), ("arr", n, inner))
                    continue
                h = self.helper_call(val, streams, depth)
                if h is not None:
                    env[tgt] = h
                    continue
                err("assignment outside the accepted subset", st)
            if isinstance(st, ast.AugAssign) and isinstance(st.target, ast.Name) and st.target.id in counters:
                continue
            if isinstance(st, (ast.For, ast.While)):
                if st.orelse:
                    err("loop with else", st)
                if isinstance(st, ast.For):
                    if not (isinstance(st.iter, ast.Call) and isinstance(st.iter.func, ast.Name)
                            and st.iter.func.id == "range" and len(st.iter.args) == 1
                            and isinstance(st.target, ast.Name)):
                        err("for loop is not `for _ in range(N)`", st)
                    n = self.ctx.const(st.iter.args[0])
                    loopvar = st.target.id
                else:
                    t = st.test
                    ok = (isinstance(t, ast.Compare) and len(t.ops) == 1 and isinstance(t.ops[0], ast.NotEq)
                          and isinstance(t.left, ast.Call) and isinstance(t.left.func, ast.Attribute)
                          and t.left.func.attr == "tell" and isinstance(t.left.func.value, ast.Name)
                          and t.left.func.value.id in streams
                          and isinstance(t.comparators[0], ast.Call) and isinstance(t.comparators[0].func, ast.Name)
                          and t.comparators[0].func.id == "len" and len(t.comparators[0].args) == 1
                          and isinstance(t.comparators[0].args[0], ast.Name)
                          and t.comparators[0].args[0].id in data_names)
                    if not ok:
                        err("while condition is not `stream.tell() != len(data)`", st)
                    n = None
                    loopvar = None
                sn0 = self.nxt()
                benv = {}
                appended = None
                for b in st.body:
                    if (isinstance(b, ast.Expr) and isinstance(b.value, ast.Call)
                            and isinstance(b.value.func, ast.Attribute) and b.value.func.attr == "append"
                            and isinstance(b.value.func.value, ast.Name) and b.value.func.value.id in lists
                            and len(b.value.args) == 1):
                        if appended is not None:
                            err("two appends in one loop", st)
                        lname = b.value.func.value.id
                        h = self.helper_call(b.value.args[0], streams, depth)
                        if h is not None:
                            elt = h[1]
                            if benv:
                                err("reads before a helper append", st)
                        else:
                            used = set()
                            _, elt = self.value_layout(b.value.args[0], benv, used, streams, depth)
                            if used != set(benv):
                                err("a value read in the loop is not stored", st)
                        appended = (lname, elt)
                        continue
                    if isinstance(b, ast.AugAssign) and isinstance(b.target, ast.Name) and b.target.id in counters:
                        continue
                    if isinstance(b, ast.Assign) and len(b.targets) == 1 and isinstance(b.targets[0], ast.Name):
                        if appended is not None:
                            err("read after append in loop", st)
                        lay = self.read_layout(b.value, streams)
                        if lay is None:
                            err("loop statement is not a read", b)
                        if loopvar and b.targets[0].id == loopvar:
                            err("loop variable reassigned", b)
                        benv[b.targets[0].id] = (self.nxt(), lay)
                        continue
                    err("loop statement outside the accepted subset", b)
                if appended is None:
                    err("loop without append", st)
                lname, elt = appended
                if lists[lname] is not None:
                    err("list filled twice", st)
                lists[lname] = True
                env[lname] = (sn0, ("arr", n, elt) if n is not None else ("many", elt))
                continue
            if isinstance(st, ast.Return):
                used = set()
                result = self.value_layout(st.value, env, used, streams, depth)
                if used != set(env):
                    err(f"values read but not returned: {sorted(set(env) - used)}", st)
                continue
            err("statement outside the accepted subset", st)
        if result is None:
            err("no return")
        return result


# ---------------------------------------------------------------------------------------
# encode


class EncodeExec:
    def __init__(self, ctx: Ctx):
        self.ctx = ctx

    def run_function(self, fname, depth=0):
        """returns (param name, list of raw items) ; items: ('field', attr, lay) | ('self', lay)"""
        if depth > 6:
            err("helper recursion too deep")
        fn = self.ctx.func(fname)
        params = [a.arg for a in fn.args.args if a.arg not in ("self", "cls")]
        if len(params) != 1:
            err(f"{fname}: expected one parameter")
        obj = params[0]
        items = []
        acc = None
        for st in fn.body:
            if isinstance(st, ast.Expr) and isinstance(st.value, ast.Constant):
                continue
            tgt = val = None
            if isinstance(st, ast.Assign) and len(st.targets) == 1 and isinstance(st.targets[0], ast.Name):
                tgt, val = st.targets[0].id, st.value
            elif isinstance(st, ast.AnnAssign) and isinstance(st.target, ast.Name) and st.value is not None:
                tgt, val = st.target.id, st.value
            if tgt is not None:
                if isinstance(val, ast.Constant) and val.value == b"" and acc is None:
                    acc = tgt
                    continue
                err("encode assignment outside the accepted subset", st)
            if isinstance(st, ast.AugAssign) and isinstance(st.op, ast.Add) and isinstance(st.target, ast.Name) \
                    and st.target.id == acc:
                items += self.expr_items(st.value, obj, depth)
                continue
            if isinstance(st, ast.For):
                if st.orelse or not isinstance(st.target, ast.Name):
                    err("encode loop shape", st)
                it = st.iter
                if not (isinstance(it, ast.Attribute) and isinstance(it.value, ast.Name) and it.value.id == obj):
                    err("encode loop does not iterate a field of the object", st)
                inner = []
                for b in st.body:
                    if not (isinstance(b, ast.AugAssign) and isinstance(b.op, ast.Add)
                            and isinstance(b.target, ast.Name) and b.target.id == acc):
                        err("encode loop body statement", b)
                    inner += self.expr_items(b.value, st.target.id, depth)
                items.append(("field", it.attr, ("loop", ("rstruct", inner))))
                continue
            if isinstance(st, ast.Return):
                if isinstance(st.value, ast.Name) and st.value.id == acc:
                    continue
                if acc is not None:
                    err("return of something other than the accumulator", st)
                items += self.expr_items(st.value, obj, depth)
                continue
            err("encode statement outside the accepted subset", st)
        return obj, items

    def expr_items(self, e, obj, depth):
        if isinstance(e, ast.BinOp) and isinstance(e.op, ast.Add):
            return self.expr_items(e.left, obj, depth) + self.expr_items(e.right, obj, depth)
        if (isinstance(e, ast.Call) and isinstance(e.func, ast.Attribute) and e.func.attr == "pack"
                and isinstance(e.func.value, ast.Name) and e.func.value.id == "struct" and not e.keywords):
            fmt = e.args[0]
            if isinstance(fmt, ast.Constant) and fmt.value in ("B", "H", "I") and len(e.args) == 2:
                a = e.args[1]
                if not (isinstance(a, ast.Attribute) and isinstance(a.value, ast.Name) and a.value.id == obj):
                    err("pack argument is not obj.attr", e)
                return [("field", a.attr, ("prim", struct.calcsize(fmt.value)))]
            if (isinstance(fmt, ast.Call) and isinstance(fmt.func, ast.Attribute) and fmt.func.attr == "format"
                    and isinstance(fmt.func.value, ast.Constant) and len(fmt.args) == 1 and len(e.args) == 2
                    and isinstance(e.args[1], ast.Starred)):
                m = re.fullmatch(r"\{\}([BHI])", str(fmt.func.value.value))
                if not m:
                    err("count format string", e)
                a = e.args[1].value
                if not (isinstance(a, ast.Attribute) and isinstance(a.value, ast.Name) and a.value.id == obj):
                    err("pack *argument is not obj.attr", e)
                w = struct.calcsize(m.group(1))
                cnt = fmt.args[0]
                if (isinstance(cnt, ast.Call) and isinstance(cnt.func, ast.Name) and cnt.func.id == "len"
                        and len(cnt.args) == 1 and ast.dump(cnt.args[0]) == ast.dump(a)):
                    return [("field", a.attr, ("loop", ("prim", w)))]
                n = self.ctx.const(cnt)
                return [("field", a.attr, ("arr", n, True, ("prim", w)))]
            err("struct.pack form", e)
        if (isinstance(e, ast.Call) and isinstance(e.func, ast.Attribute) and isinstance(e.func.value, ast.Name)
                and e.func.value.id in ("self", "cls") and len(e.args) == 1 and not e.keywords):
            a = e.args[0]
            _, sub = self.run_function(e.func.attr, depth + 1)
            if isinstance(a, ast.Name) and a.id == obj:
                return [("self", ("rstruct", sub))]
            if isinstance(a, ast.Attribute) and isinstance(a.value, ast.Name) and a.value.id == obj:
                return [("field", a.attr, ("rstruct", sub))]
            err("helper argument", e)
        err("encode expression outside the accepted subset", e)


# ---------------------------------------------------------------------------------------
# property -> dataclass field, alignment of the raw encode layout against the decode layout


_PROP_CACHE: dict[str, dict[str, str]] = {}


def _getter_attr(e):
    """self._x | self._x.copy() | copy.deepcopy(self._x) | list(self._x) -> '_x' (value-preserving getters)"""
    if isinstance(e, ast.Attribute) and isinstance(e.value, ast.Name) and e.value.id == "self":
        return e.attr
    if (isinstance(e, ast.Call) and not e.args and not e.keywords and isinstance(e.func, ast.Attribute)
            and e.func.attr == "copy"):
        return _getter_attr(e.func.value)
    if (isinstance(e, ast.Call) and len(e.args) == 1 and not e.keywords
            and ((isinstance(e.func, ast.Attribute) and e.func.attr == "deepcopy"
                  and isinstance(e.func.value, ast.Name) and e.func.value.id == "copy")
                 or (isinstance(e.func, ast.Name) and e.func.id == "list"))):
        return _getter_attr(e.args[0])
    return None


def class_props(clsname: str) -> dict[str, str]:
    if not _PROP_CACHE:
        for p in (PKG / "model/chk").rglob("*.py"):
            t = ast.parse(p.read_text())
            for n in t.body:
                if isinstance(n, ast.ClassDef):
                    d = {}
                    for f in n.body:
                        if (isinstance(f, ast.FunctionDef)
                                and any(isinstance(x, ast.Name) and x.id == "property" for x in f.decorator_list)):
                            body = [s for s in f.body
                                    if not (isinstance(s, ast.Expr) and isinstance(s.value, ast.Constant))]
                            if len(body) == 1 and isinstance(body[0], ast.Return):
                                a = _getter_attr(body[0].value)
                                if a is not None:
                                    d[f.name] = a
                    _PROP_CACHE.setdefault(n.name, {}).update(d)
    return _PROP_CACHE.get(clsname, {})


def flatten_raw(items):
    """('self', rstruct) items are inlined"""
    out = []
    for it in items:
        if it[0] == "self":
            out += flatten_raw(it[1][1])
        else:
            out.append(it)
    return out


def align(dec, raw):
    """dec: decode layout; raw: raw encode layout -> encode layout in the common language"""
    k = raw[0]
    if dec[0] == "chunk":
        return ("chunk", dec[1], align(dec[2], raw))
    if k == "prim":
        return ("prim", raw[1])
    if k == "arr":
        inner_dec = dec[2] if dec[0] == "arr" else ("none",)
        return ("arr", raw[1], True, align(inner_dec, raw[3]))
    if k == "loop":
        if dec[0] == "arr":
            return ("arr", dec[1], False, align(dec[2], raw[1]))
        if dec[0] == "many":
            return ("many", align(dec[1], raw[1]))
        return ("many", align(("none",), raw[1]))
    if k == "rstruct":
        items = flatten_raw(raw[1])
        if dec[0] == "struct":
            props = class_props(dec[1])
            dfields = dict(dec[2])
            fields = []
            for _, attr, lay in items:
                fname = props.get(attr, attr)
                fields.append((fname, align(dfields.get(fname, ("none",)), lay)))
            return ("struct", dec[1], fields)
        return ("struct", "?", [(attr, align(("none",), lay)) for _, attr, lay in items])
    err(f"cannot align {k}")


def dec_to_common(d):
    k = d[0]
    if k == "prim":
        return d
    if k == "arr":
        return ("arr", d[1], False, dec_to_common(d[2]))
    if k == "many":
        return ("many", dec_to_common(d[1]))
    if k == "chunk":
        return ("chunk", d[1], dec_to_common(d[2]))
    if k == "struct":
        return ("struct", d[1], [(n, dec_to_common(l)) for n, l in d[2]])
    err("bad layout " + k)


def coq_layout(l) -> str:
    k = l[0]
    if k == "prim":
        return f"Prim {l[1]}"
    if k == "arr":
        return f"Arr {l[1]} {coq_bool(l[2])} ({coq_layout(l[3])})"
    if k == "many":
        return f"Many ({coq_layout(l[1])})"
    if k == "chunk":
        return f"Chunk {l[1]} ({coq_layout(l[2])})"
    if k == "struct":
        s = "Unit"
        for n, sub in reversed(l[2]):
            s = f"Seq (Named {coq_string(n)} ({coq_layout(sub)})) ({s})"
        return s
    err("bad layout " + k)


def layouts():
    out = {}
    for sec, mod, cls in SECTIONS:
        ctx = Ctx(mod, cls)
        _, dec = DecodeExec(ctx).run_function("decode", False)
        if dec[0] != "struct":
            err(f"{sec}: decode does not return a section object")
        obj, items = EncodeExec(ctx).run_function("_encode")
        enc = align(dec, ("rstruct", items))
        out[sec] = (dec_to_common(dec), enc)
    return out


def generate() -> dict[str, str]:
    ls = layouts()
    txt = GEN_HEADER.format(tool="translate_layouts.py")
    txt += ("From Coq Require Import String List.\nFrom RC Require Import model.Layout.\n"
            "Import ListNotations.\nLocal Open Scope string_scope.\n\n")
    for sec, (dec, enc) in ls.items():
        txt += f"Definition dec_{sec} : layout :=\n  {coq_layout(dec)}.\n\n"
        txt += f"Definition enc_{sec} : layout :=\n  {coq_layout(enc)}.\n\n"
    reg = registry()
    wire = {cls: name for name, cls in reg.items()}
    rows = []
    for sec, mod, cls in SECTIONS:
        if cls not in wire:
            raise TranslatorError(f"{cls} is not registered in ChkSectionTranscoderFactory")
        rows.append(f"({coq_string(wire[cls])}, (dec_{sec}, enc_{sec}))")
    txt += "Definition gen_layouts : list (string * (layout * layout)) :=\n  [" + ";\n   ".join(rows) + "].\n\n"
    srows = []
    for mod, cls, w in STRING_SECTIONS:
        if cls not in wire:
            raise TranslatorError(f"{cls} is not registered")
        srows.append(f"({coq_string(wire[cls])}, {w})")
    txt += "(* sections handled by the hand model model/Str.v, with their offset width *)\n"
    txt += "Definition gen_string_sections : list (string * nat) :=\n  [" + "; ".join(srows) + "].\n\n"
    from richchk.transcoder.richchk.richchk_section_transcoder_factory import RichChkSectionTranscoderFactory as RF
    txt += "(* every name registered in RichChkSectionTranscoderFactory.transcoders *)\n"
    txt += "Definition registered_rich_sections : list string :=\n  [" + "; ".join(
        coq_string(k.value) for k in RF.transcoders) + "].\n\n"
    txt += "(* every name registered in ChkSectionTranscoderFactory.transcoders *)\n"
    txt += "Definition registered_chk_sections : list string :=\n  [" + "; ".join(
        coq_string(n) for n in reg) + "].\n"
    BUILD.mkdir(exist_ok=True)
    (BUILD / "layouts.json").write_text(json.dumps(
        {wire[cls]: {"dec": ls[sec][0], "enc": ls[sec][1]} for sec, mod, cls in SECTIONS}))
    return {"gen/GenLayouts.v": txt}


if __name__ == "__main__":
    print(generate()["gen/GenLayouts.v"])
