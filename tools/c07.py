"""C07 — edits never disturb what already exists in the map."""
from __future__ import annotations

import json
import random
from pathlib import Path

import authoring as A
import richchecks as R
import richcorr as RC
import scenarios as SC
import vlib

PROP = "C07"


def split_trig_witness():
    import random
    base = SC.MapGen(random.Random(31), "editor", nloc=255, all_sections=True, ntrig=3, split_trig=True).build()
    spec = {"pool": {"locs": [], "cuwps": [], "switches": []},
            "ops": [["add_triggers", [{"conds": [], "acts": [["rich", 1, [], [False] * 5]], "players": [0]}]]]}
    return base, spec


def run(ck: vlib.Check):
    n = 80 if ck.tier == "quick" else 3000
    ck.rule = ("random sequences of 1..3 editor operations (add triggers with new / existing objects, upsert unit "
               "settings, save+reload) on the scx fixture and synthetic bases, incl. nearly full slot tables; the saved "
               "bytes are compared slot by slot, string id by string id and trigger by trigger with the save of the "
               "UNEDITED map by an independent reader; sections no edit concerns must be byte-identical; a bare-number reference to a named switch under 8 (32) string-hash seeds. Implementation "
               "vs extracted pipeline model byte for byte. Distinct = distinct (base, operation sequence).")
    drv_ok = RC.build_rich(ck, ["proofs/C07_proofs.vo"], "props/C07.v")
    rng = ck.rng
    bs = R.bases(rng, 4 if ck.tier == "quick" else 40, ck.tier)
    cases = []
    # pressure: tables that are full or nearly full and hold slots with identical contents (the shape of
    # editor-prefilled maps such as the demon_lore fixture), to which one new object of each kind is added
    import c11
    press = [(nme.split("/")[-1], b) for nme, b in SC.fixtures() if "demon" in nme][:1]
    for k in range(2 if ck.tier == "quick" else 12):
        press.append((f"prefilled:{k}", SC.MapGen(random.Random(rng.randrange(10 ** 9)), "editor", nloc=255, all_sections=True,
                                                 uprp_prefilled=(k % 2 == 0), cuwp_twins=True, ntrig=2).build()))
    for label, base in press:
        one_loc = [[1, 1, 2, 2, None, None, [True] * 6]]
        new_cuwp = [[77, 66, 55, 4242, 3, [False] * 5, [True] * 5 + [False], [True] * 6 + [False], False, 0, None]]
        for nm, spec in (("new-cuwp", {"pool": {"locs": one_loc, "switches": [], "cuwps": new_cuwp}, "ops": [c11._trigs(c11._cuwp_acts([0]))]}),
                         ("new-loc", {"pool": {"locs": [[5, 6, 7, 8, "pressure loc", None, [True] * 6]], "switches": [], "cuwps": []},
                                      "ops": [c11._trigs(c11._loc_acts([0]))]}),
                         ("new-switch", {"pool": {"locs": [], "cuwps": [], "switches": [["pressure switch", None]]},
                                         "ops": [c11._trigs(c11._switch_acts([0]))]})):
            cases.append((f"{label}:{nm}", base, spec, label))
    # maps whose triggers use the lowest unnamed switch numbers, to which one new named and one new nameless switch are added
    for k in range(2):
        lowb = SC.MapGen(random.Random(rng.randrange(10 ** 9)), "editor", nloc=255, all_sections=True, ntrig=2,
                         use_low_switches=True, swnm_density=(0.05, 0.5)[k]).build()
        press.append((f"low-switches:{k}", lowb))
        for nm, sw in (("named", [["a brand new switch", None]]), ("nameless", [[None, None]])):
            cases.append((f"low-switches:{k}:{nm}", lowb,
                          {"pool": {"locs": [], "cuwps": [], "switches": sw}, "ops": [c11._trigs(c11._switch_acts([0]))]},
                          f"low-switches:{k}"))
    unedited = {label: RC.impl_load_save(b) for label, b in bs + press}
    for i in range(n):
        label, base = bs[i % len(bs)]
        cases.append((f"{label}#{i}", base, A.gen_scenario(rng, base), label))
    impl = []
    for label, base, spec, bl in cases:
        r, resave = A.run_impl_with_base(base, spec)
        impl.append(r)
        if unedited[bl][0] == 1 and resave != unedited[bl]:
            # the map value the edits started from is still there, untouched: saving it must give what it always gave
            what = "raises" if resave[0] == 0 else "; ".join(RC.chunk_diff(bytes(unedited[bl][1]), bytes(resave[1]))[:2])
            ck.violation(f"{label}: after an edited copy was saved, saving the ORIGINAL map object gives something else: {what}",
                         {"kind": "base-resave", "label": label, "base_hex": base.hex(), "spec": spec}, True)
        ck.evaluations += 1
        ck.note_case(label + json.dumps(spec, sort_keys=True)[:2000])
        u = unedited[bl]
        if r[0] == 0 or u[0] == 0:
            continue
        bad = R.c07_oracle(base, spec, bytes(u[1]), bytes(r[1]))
        if bad:
            ck.violation(f"{label}: {bad}", {"kind": "frozen", "label": label, "base_hex": base.hex(), "spec": spec,
                                             "detail": bad}, True)
    # a new trigger that refers to an existing NAMED switch by its number alone, under several string-hash seeds (the
    # rebuilder gathers switches in a set: which of two objects with one index is met last depends on the seed)
    import c14
    raw = (vlib.REPO / "test/resources/test-chkjson-scx.chk").read_bytes()
    v0 = SC.SpecView(raw)
    k0 = next(i for i in range(256) if v0.switch(i)[1])
    for h in range(8 if ck.tier == "quick" else 32):
        o = c14.one(1, h, h, script=c14.F18)
        ck.evaluations += 1
        ck.note_case(f"bare-switch-reference:hashseed{h}")
        if o.get("switch") != k0 or o.get("name") != v0.switch(k0)[1]:
            ck.violation(f"a new trigger refers to the existing switch {k0} ({v0.switch(k0)[1]!r}) by number only: under "
                         f"PYTHONHASHSEED={h} the saved map names that switch {o.get('name')!r} ({o})",
                         {"kind": "bare-switch-reference", "hashseed": h, "switch": k0, "observed": o}, True)
            break
    known, _ = vlib.load_known_findings(PROP)
    for f in known:
        if f["key"] == "split-trig-sections":
            base, spec = split_trig_witness()
            r, u = A.run_impl(base, spec), RC.impl_load_save(base)
            if r[0] == 1 and u[0] == 1:
                tb = [p for nme, p in SC.chunks_of(bytes(u[1])) if nme == b"TRIG"]
                to = [p for nme, p in SC.chunks_of(bytes(r[1])) if nme == b"TRIG"]
                if len(tb) == 2 and len(to) == 2 and to[1][:len(tb[1])] != tb[1]:
                    ck.known(f"key={f['key']} {f['text']}")
    if drv_ok:
        R.correspond(ck, [(a, b, c) for a, b, c, _ in cases], impl,
                     "edit sequence -> saved bytes: implementation vs extracted pipeline model")
    ck.sample({"case": cases[0][0], "ops": [o[0] for o in cases[0][2]["ops"]]})
    ck.sample({"case": cases[-1][0], "ops": [o[0] for o in cases[-1][2]["ops"]]})


def replay(path: str) -> int:
    rp = json.loads(Path(path).read_text())
    print("replaying:", rp.get("what"))
    if rp.get("kind") == "base-resave":
        base = bytes.fromhex(rp["base_hex"])
        r, resave = A.run_impl_with_base(base, rp["spec"])
        bad = resave != RC.impl_load_save(base)
        print("still failing" if bad else "no longer failing")
        return 1 if bad else 0
    if rp.get("kind") == "bare-switch-reference":
        import c14
        raw = (vlib.REPO / "test/resources/test-chkjson-scx.chk").read_bytes()
        want = SC.SpecView(raw).switch(rp["switch"])[1]
        o = c14.one(1, rp["hashseed"], rp["hashseed"], script=c14.F18)
        bad = o.get("name") != want
        print(f"still failing: {o}" if bad else "no longer failing")
        return 1 if bad else 0
    if rp.get("kind") == "frozen":
        base = bytes.fromhex(rp["base_hex"])
        r, u = A.run_impl(base, rp["spec"]), RC.impl_load_save(base)
        bad = R.c07_oracle(base, rp["spec"], bytes(u[1]), bytes(r[1])) if r[0] == 1 and u[0] == 1 else None
        print("still failing: " + bad if bad else "no longer failing")
        return 1 if bad else 0
    print(json.dumps(rp, indent=1)[:3000])
    return 1
