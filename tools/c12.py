"""C12 — flag, enum and fixed-point codecs are exact on their whole domain."""
from __future__ import annotations

import dataclasses
import json
import struct
from decimal import Decimal

import vlib
from vlib import T, impl_result, parse_tree

FLAG_NBITS = {
    "action_flags_codec": (8, 5), "condition_flags_codec": (8, 5), "elevation_flags_codec": (16, 6),
    "cuwp_unit_property_flags_codec": (16, 6), "cuwp_valid_special_flags_codec": (16, 6),
    "cuwp_valid_unit_flags_codec": (16, 7),
}


def _get(obj, name):
    return getattr(obj, name) if hasattr(obj, name) else getattr(obj, "_" + name)


class Impl:
    """Adaptors: call the real codecs with plain numbers / lists of bools (in table field order)."""

    def __init__(self, tables):
        from richchk.model.chk.mrgn.decoded_location import DecodedLocation
        from richchk.model.richchk.mrgn.rich_location import RichLocation
        from richchk.model.richchk.str.rich_string import RichNullString
        from richchk.model.richchk.trig.actions.flags.trigger_action_flags import TriggerActionFlags
        from richchk.model.richchk.trig.conditions.flags.trigger_condition_flags import TriggerConditionFlags
        from richchk.model.richchk.uprp.flags.unit_property_flags import UnitPropertyFlags
        from richchk.model.richchk.uprp.flags.valid_special_property_flags import ValidSpecialPropertyFlags
        from richchk.model.richchk.uprp.flags.valid_unit_property_flags import ValidUnitPropertyFlags
        from richchk.transcoder.richchk.transcoders.helpers.cuwp_flags_transcoder import CuwpFlagsTranscoder
        from richchk.transcoder.richchk.transcoders.helpers.trigger_action_flags_transcoder import (
            TriggerActionFlagsTranscoder)
        from richchk.transcoder.richchk.transcoders.helpers.trigger_condition_flags_transcoder import (
            TriggerConditionFlagsTranscoder)
        from richchk.transcoder.richchk.transcoders.richchk_mrgn_transcoder import RichChkMrgnTranscoder

        self.tables = tables
        self.fields = {n: [f for f, _, _ in t[1]] for n, t in tables.items()}

        def mk(cls, names, bits):
            kw = {}
            fns = {f.name for f in dataclasses.fields(cls)}
            for n, b in zip(names, bits):
                kw[n if n in fns else "_" + n] = b
            return cls(**kw)

        def loc(bits):
            kw = {"_" + n: b for n, b in zip(self.fields["elevation_flags_codec"], bits)}
            return RichLocation(_left_x1=0, _top_y1=0, _right_x2=0, _bottom_y2=0, _custom_location_name=RichNullString(), **kw)

        self.dec = {
            "action_flags_codec": TriggerActionFlagsTranscoder.decode_flags,
            "condition_flags_codec": TriggerConditionFlagsTranscoder.decode_flags,
            "elevation_flags_codec": lambda x: RichChkMrgnTranscoder._decode_elevation_flags(
                decoded_location=DecodedLocation(0, 0, 0, 0, 0, x)),
            "cuwp_unit_property_flags_codec": lambda x: CuwpFlagsTranscoder.decode_flags(x, UnitPropertyFlags),
            "cuwp_valid_special_flags_codec": lambda x: CuwpFlagsTranscoder.decode_flags(x, ValidSpecialPropertyFlags),
            "cuwp_valid_unit_flags_codec": lambda x: CuwpFlagsTranscoder.decode_flags(x, ValidUnitPropertyFlags),
        }
        self.enc = {
            "action_flags_codec": lambda bits: TriggerActionFlagsTranscoder.encode_flags(
                mk(TriggerActionFlags, self.fields["action_flags_codec"], bits)),
            "condition_flags_codec": lambda bits: TriggerConditionFlagsTranscoder.encode_flags(
                mk(TriggerConditionFlags, self.fields["condition_flags_codec"], bits)),
            "elevation_flags_codec": lambda bits: RichChkMrgnTranscoder._encode_elevation_flags(loc(bits)),
            "cuwp_unit_property_flags_codec": lambda bits: CuwpFlagsTranscoder.encode_flags(
                mk(UnitPropertyFlags, self.fields["cuwp_unit_property_flags_codec"], bits)),
            "cuwp_valid_special_flags_codec": lambda bits: CuwpFlagsTranscoder.encode_flags(
                mk(ValidSpecialPropertyFlags, self.fields["cuwp_valid_special_flags_codec"], bits)),
            "cuwp_valid_unit_flags_codec": lambda bits: CuwpFlagsTranscoder.encode_flags(
                mk(ValidUnitPropertyFlags, self.fields["cuwp_valid_unit_flags_codec"], bits)),
        }

    def decode(self, codec, x):
        r = self.dec[codec](x)
        return [bool(_get(r, f)) for f in self.fields[codec]]

    def encode(self, codec, bits):
        return self.enc[codec](bits)


def _all_bools(n):
    return [[bool((i >> k) & 1) for k in range(n)] for i in range(2 ** n)]


def flags_oracle(impl: Impl, codec: str, exhaustive_numbers=True):
    """The property itself on the implementation, complete over the codec's domain.
    Returns a failing case dict or None."""
    width, nbits = FLAG_NBITS[codec]
    nfields = len(impl.fields[codec])
    nb = min(nbits, nfields) if nfields else nbits
    # every representable number (all spec'd bits) returns unchanged; reserved bits never leak into a wrong flag
    for x in range(2 ** width):
        try:
            bits = impl.decode(codec, x)
            y = impl.encode(codec, bits)
        except Exception as ex:  # noqa
            return {"codec": codec, "direction": "number->rich->number", "x": x, "raised": repr(ex)}
        if y != x % (2 ** nb):
            return {"codec": codec, "direction": "number->rich->number", "x": x, "got": y,
                    "expected": x % (2 ** nb)}
    seen = {}
    for bits in _all_bools(nfields):
        try:
            x = impl.encode(codec, bits)
            back = impl.decode(codec, x)
        except Exception as ex:  # noqa
            return {"codec": codec, "direction": "rich->number->rich", "bits": bits, "raised": repr(ex)}
        if back != bits:
            return {"codec": codec, "direction": "rich->number->rich", "bits": bits, "number": x, "got": back}
        if x in seen:
            return {"codec": codec, "direction": "collision", "bits": bits, "other": seen[x], "number": x}
        seen[x] = bits
    return None


def enum_oracle(E, limit):
    from richchk.transcoder.richchk.transcoders.helpers.richchk_enum_transcoder import RichChkEnumTranscoder as X
    members = list(E)
    ids = {}
    for m in members:
        if m.id in ids:
            return {"enum": E.__name__, "direction": "collision", "id": m.id, "members": [ids[m.id], m._name_]}
        ids[m.id] = m._name_
    for m in members:
        try:
            i = X.encode_enum(m)
            back = X.decode_enum(i, E)
        except Exception as ex:  # noqa
            return {"enum": E.__name__, "direction": "member->id->member", "member": m._name_, "raised": repr(ex)}
        if back is not m:
            return {"enum": E.__name__, "direction": "member->id->member", "member": m._name_, "id": i,
                    "got": back._name_}
    for n in range(limit):
        try:
            got = X.decode_enum(n, E)
            if n not in ids or got._name_ != ids[n] or X.encode_enum(got) != n:
                return {"enum": E.__name__, "direction": "id->member", "id": n, "got": got._name_}
            if not X.contains_enum_by_id(n, E):
                return {"enum": E.__name__, "direction": "contains", "id": n, "got": False}
        except KeyError:
            if n in ids:
                return {"enum": E.__name__, "direction": "id->member", "id": n, "raised": "KeyError"}
            if X.contains_enum_by_id(n, E):
                return {"enum": E.__name__, "direction": "contains", "id": n, "got": True}
        except Exception as ex:  # noqa
            return {"enum": E.__name__, "direction": "id->member", "id": n, "raised": repr(ex)}
    return None


def hp_oracle_case(raw):
    from richchk.model.richchk.unis.unit_id import UnitId
    from richchk.transcoder.richchk.transcoders.helpers.unit_hitpoints_transcoder import UnitHitpointsTranscoder as H
    d = H.decode_hitpoints(UnitId.TERRAN_MARINE, raw)
    back = H.encode_hitpoints(d)
    if back != raw or d * 256 != raw:
        return {"codec": "hitpoints", "raw": raw, "decoded": str(d), "back": back}
    return None


def hp_values(rng, tier):
    vals = set(range(0, 2 ** 14 if tier == "quick" else 2 ** 20))
    for k in range(33):
        for d in (-2, -1, 0, 1, 2):
            v = 2 ** k + d
            if 0 <= v < 2 ** 32:
                vals.add(v)
    for k in range(10):
        for d in (-1, 0, 1):
            v = 10 ** k + d
            if 0 <= v < 2 ** 32:
                vals.add(v)
    n = 4000 if tier == "quick" else 400000
    for i in range(n):  # stratified: uniform in every power-of-two band
        k = i % 32
        vals.add(rng.randrange(2 ** k, 2 ** (k + 1)))
    return sorted(vals)


def ai_tags(rng, tier):
    """4-byte tags from a grammar covering every UTF-8 length class, valid and invalid."""
    from richchk.model.richchk.trig.enums.ai_script import KnownAiScript
    tags = [m.value.name.encode("utf-8") for m in KnownAiScript]
    tags = [t for t in tags if len(t) == 4]
    classes = [
        lambda: bytes([rng.randrange(0, 0x80)]),
        lambda: chr(rng.randrange(0x80, 0x800)).encode(),
        lambda: chr(rng.choice([rng.randrange(0x800, 0xD800), rng.randrange(0xE000, 0x10000)])).encode(),
        lambda: chr(rng.randrange(0x10000, 0x110000)).encode(),
        lambda: bytes([rng.randrange(0x80, 0x100)]),          # stray continuation / invalid lead
        lambda: bytes([0xC0 + rng.randrange(2), 0x80 + rng.randrange(64)]),  # overlong
        lambda: bytes([0xED, 0xA0 + rng.randrange(32), 0x80 + rng.randrange(64)]),  # surrogate
        lambda: bytes([0xF4, 0x90 + rng.randrange(48), 0x80, 0x80]),  # > U+10FFFF
    ]
    n = 3000 if tier == "quick" else 200000
    for _ in range(n):
        b = b""
        while len(b) < 4:
            b += rng.choice(classes)()
        tags.append(b[:4])
    for b0 in range(256):
        tags.append(bytes([b0, 0x41, 0x42, 0x43]))
        tags.append(bytes([0x41, 0x42, 0x43, b0]))
    # the neighbourhood of every known tag: a lookup that is too generous (case folding, prefix match, stripped
    # or normalised keys) shows exactly here - every letter-case variant, every single-byte substitution,
    # rotations and reversals
    known = [t for t in tags[:len(list(KnownAiScript))]]
    for t in known:
        for mask in range(16):
            tags.append(bytes((c ^ 0x20) if (mask >> i) & 1 and (65 <= (c & ~0x20) <= 90) else c for i, c in enumerate(t)))
        for pos in range(4):
            for b in range(256):
                tags.append(t[:pos] + bytes([b]) + t[pos + 1:])
        tags.append(t[::-1])
        tags.append(t[1:] + t[:1])
        tags.append(t[:3] + b" ")
        tags.append(b" " + t[:3])
        tags.append(t[:3] + b"\x00")
    return tags


def ai_oracle_case(tag: bytes):
    from richchk.transcoder.richchk.transcoders.helpers.ai_script_transcoder import AiScriptTranscoder as A
    v = struct.unpack("I", tag)[0]
    try:
        tag.decode("utf-8")
        valid = True
    except UnicodeDecodeError:
        valid = False
    try:
        s = A.decode(v)
    except UnicodeDecodeError:
        return None if not valid else {"codec": "ai_script", "value": v, "raised": "UnicodeDecodeError on valid tag"}
    except Exception as ex:  # noqa
        return {"codec": "ai_script", "value": v, "raised": repr(ex)}
    if not valid:
        return {"codec": "ai_script", "value": v, "got": s.name, "note": "invalid UTF-8 tag decoded"}
    try:
        back = A.encode(s)
    except Exception as ex:  # noqa
        return {"codec": "ai_script", "value": v, "name": s.name, "raised": repr(ex)}
    if back != v or s.name != tag.decode("utf-8"):
        return {"codec": "ai_script", "value": v, "name": s.name, "back": back}
    return None


LATE_ENUM = r"""
import importlib, json, sys
sys.path.insert(0, sys.argv[1])
import logging; logging.disable(logging.CRITICAL)
ma, ca, mb, cb = sys.argv[2:6]
from richchk.transcoder.richchk.transcoders.helpers.richchk_enum_transcoder import RichChkEnumTranscoder as X
A = getattr(importlib.import_module(ma), ca)
first = next(iter(A))
if X.decode_enum(first.id, A) is not first:          # the first lookup of the process
    print(json.dumps(["first lookup wrong"])); sys.exit(0)
B = getattr(importlib.import_module(mb), cb)         # an enum that is only loaded afterwards
bad = []
for m in B:
    try:
        if not X.contains_enum_by_id(m.id, B) or X.decode_enum(m.id, B) is not m or X.encode_enum(m) != m.id:
            bad.append(m.name)
    except Exception as ex:
        bad.append(m.name + ":" + type(ex).__name__)
print(json.dumps(bad[:5]))
"""


NAMESAKE_ENUM = r"""
import importlib, json, sys
sys.path.insert(0, sys.argv[1])
import logging; logging.disable(logging.CRITICAL)
mb, cb, order = sys.argv[2:5]
from richchk.model.richchk.richchk_enum import RichChkEnum
from richchk.transcoder.richchk.transcoders.helpers.richchk_enum_transcoder import RichChkEnumTranscoder as X
E = getattr(importlib.import_module(mb), cb)
# an application's own enumeration that happens to carry the SAME class name (an extended copy, a notebook re-definition)
F = RichChkEnum(cb, {"FOREIGN_A": (100000, "foreign a"), "FOREIGN_B": (next(iter(E)).id, "foreign b")})
assert F.__name__ == E.__name__ and F is not E
bad = []
def sweep(T, others):
    for m in T:
        try:
            if not X.contains_enum_by_id(m.id, T) or X.decode_enum(m.id, T) is not m or X.encode_enum(m) != m.id:
                bad.append(T.__module__ + "." + m.name)
        except Exception as ex:
            bad.append(T.__module__ + "." + m.name + ":" + type(ex).__name__)
    own = {m.id for m in T}
    for o in others:
        if o.id not in own and X.contains_enum_by_id(o.id, T):
            bad.append(T.__module__ + ": foreign id " + str(o.id) + " reported present")
for T in ((F, E) if order == "0" else (E, F)):
    sweep(T, list(F if T is E else E))
print(json.dumps(bad[:5]))
"""


def namesake_enum_cases(es):
    """every library enum swept next to an unrelated enum class of the SAME NAME living in the same process (looked up
    before it and after it): a table found by class name instead of by class serves the wrong members"""
    import subprocess
    from concurrent.futures import ThreadPoolExecutor
    jobs = [(E.__module__, E.__name__, o) for E, _ in es.values() for o in ("0", "1")]

    def one(j):
        p = subprocess.run(["/venv/bin/python", "-c", NAMESAKE_ENUM, str(vlib.SRC), *j], stdout=subprocess.PIPE,
                           stderr=subprocess.PIPE, text=True, timeout=120, env={"PATH": "/usr/bin:/bin", "PYTHONHASHSEED": "0"})
        try:
            return j, json.loads(p.stdout.strip().splitlines()[-1])
        except Exception:  # noqa
            return j, ["process failed: " + p.stderr[-200:]]
    with ThreadPoolExecutor(max_workers=vlib.NCPU) as ex:
        return list(ex.map(one, jobs))


def late_enum_cases(es, optimised=False):
    """every enum used for the first time AFTER another enum's first lookup, in a fresh interpreter each;
    optimised = the interpreter runs with -O (assert statements are not executed)"""
    import subprocess
    from concurrent.futures import ThreadPoolExecutor
    items = sorted((E.__module__, E.__name__) for E, _ in es.values())
    jobs = [(items[(i + 1) % len(items)], b) for i, b in enumerate(items)]

    def one(j):
        (ma, ca), (mb, cb) = j
        p = subprocess.run(["/venv/bin/python"] + (["-O"] if optimised else []) + ["-c", LATE_ENUM, str(vlib.SRC), ma, ca, mb, cb], stdout=subprocess.PIPE,
                           stderr=subprocess.PIPE, text=True, timeout=120, env={"PATH": "/usr/bin:/bin", "PYTHONHASHSEED": "0"})
        try:
            return j, json.loads(p.stdout.strip().splitlines()[-1])
        except Exception:  # noqa
            return j, ["process failed: " + p.stderr[-200:]]
    with ThreadPoolExecutor(max_workers=vlib.NCPU) as ex:
        return list(ex.map(one, jobs))


def run(ck: vlib.Check):
    tier = ck.tier
    ck.rule = ("flags: every number of the field width and every boolean vector, implementation vs extracted model "
               "and vs the property itself; enums: ids 0..limit for every RichChkEnum; hit points: all raw below "
               "2^14 (quick) / 2^20 (thorough) + powers-of-two/ten boundaries + stratified sample over u32; AI tags: "
               "grammar over all UTF-8 length classes incl. invalid. Distinct = distinct (codec, input).")
    st = ck.regen(["flags", "enums", "scalars"])
    with vlib.build_lock():
        built = ck.build(["proofs/C12_proofs.vo", "model/RunC12.vo"])
        props_ok = built and ck.check_props("props/C12.v")
        drv_ok = False
        if built:
            drv_ok, out = vlib.build_driver("C12")
            ck.oblige("extraction+driver:C12", drv_ok, out)

    import translate_enums
    import translate_flags
    # ---- implementation side ------------------------------------------------------
    try:
        tables = translate_flags.tables()
    except Exception:
        tables = None
    viol = None
    if tables is not None:
        impl = Impl(tables)
    else:
        # translator broke: use the last known field orders so that the search can still run
        impl = Impl({n: (w, [(f, i + 1, False) for i, f in enumerate(fs)], None)
                     for n, (w, fs) in FALLBACK_FIELDS.items()})
    # 1. the property itself, exhaustively, on the implementation (this is also the failing-input search)
    for codec in FLAG_NBITS:
        bad = flags_oracle(impl, codec)
        width, _ = FLAG_NBITS[codec]
        ck.evaluations += 2 ** width + 2 ** len(impl.fields[codec])
        if bad:
            ck.violation(f"flag codec {codec} is not exact: {bad}", {"kind": "flags", **bad}, True)
    # ... and again with every logger of the process set to a level that silences / enables everything: what a codec returns
    # must not depend on whether its diagnostics would be emitted
    import logging
    loggers = [logging.getLogger()] + [lg for lg in logging.root.manager.loggerDict.values() if isinstance(lg, logging.Logger)]
    saved = [lg.level for lg in loggers]
    try:
        for level in (logging.CRITICAL, logging.ERROR, logging.DEBUG):
            for lg in loggers:
                lg.setLevel(level)
            for codec in FLAG_NBITS:
                bad = flags_oracle(impl, codec)
                ck.evaluations += 2 ** FLAG_NBITS[codec][0]
                if bad:
                    ck.violation(f"flag codec {codec} is not exact when the loggers are at level {logging.getLevelName(level)}: {bad}",
                                 {"kind": "flags", "logger_level": logging.getLevelName(level), **bad}, True)
    finally:
        for lg, lv in zip(loggers, saved):
            lg.setLevel(lv)
    enum_limit = 1200 if tier == "quick" else 70000
    es = translate_enums.enums()
    for name, (E, rows) in es.items():
        bad = enum_oracle(E, enum_limit)
        ck.evaluations += enum_limit + len(rows)
        if bad:
            ck.violation(f"enum codec {name} is not exact: {bad}", {"kind": "enum", **bad}, True)
    for (first, (mb, cb)), bad in late_enum_cases(es):
        ck.evaluations += 1
        ck.note_case(f"late-enum:{first[1]}->{cb}")
        if bad:
            ck.violation(f"enum {cb}, first used after {first[1]} had been looked up, is not exact: members {bad}",
                         {"kind": "late-enum", "first": list(first), "enum": [mb, cb], "members": bad}, True)
    # the same under an optimising interpreter (python -O): a codec must not depend on assert statements being executed
    for (first, (mb, cb)), bad in late_enum_cases(es, optimised=True):
        ck.evaluations += 1
        ck.note_case(f"late-enum-O:{first[1]}->{cb}")
        if bad:
            ck.violation(f"under python -O, enum {cb} (first used after {first[1]}) is not exact: members {bad}",
                         {"kind": "late-enum", "optimised": True, "first": list(first), "enum": [mb, cb], "members": bad}, True)
    for (mb, cb, order), bad in namesake_enum_cases(es):
        ck.evaluations += 1
        ck.note_case(f"namesake-enum:{cb}:{order}")
        if bad:
            ck.violation(f"enum {cb}, with an unrelated enum class of the same name in the process (looked up "
                         f"{'first' if order == '0' else 'second'}), is not exact: {bad}",
                         {"kind": "namesake-enum", "enum": [mb, cb], "order": order, "members": bad}, True)
    hv = hp_values(ck.rng, tier)
    for raw in hv:
        bad = hp_oracle_case(raw)
        if bad:
            ck.violation(f"hit points codec is not exact: {bad}", {"kind": "hitpoints", **bad}, True)
            break
    ck.evaluations += len(hv)
    tags = ai_tags(ck.rng, tier)
    for tag in tags:
        bad = ai_oracle_case(tag)
        if bad:
            ck.violation(f"AI script codec is not exact: {bad}", {"kind": "ai_script", "tag": list(tag), **bad}, True)
            break
    ck.evaluations += len(tags)
    for raw in hv[:3] + hv[-2:]:
        ck.note_case(f"hp:{raw}")
    ck.extra["hitpoints_values"] = len(hv)
    ck.extra["ai_tags"] = len(set(tags))
    for t in set(tags):
        ck.note_case("ai:" + t.hex())
    for v in hv:
        ck.note_case(f"hp:{v}")

    # 2. correspondence implementation vs extracted model (complete on the flag domains)
    if drv_ok and tables is not None:
        cases, expect, keys = [], [], []
        for codec, (w, dec, enc) in tables.items():
            width, _ = FLAG_NBITS[codec]
            for x in range(2 ** width):
                cases.append(f"(1 {T(codec)} {x})")
                expect.append(T(impl_result(lambda: impl.decode(codec, x))))
                keys.append(f"{codec}:d:{x}")
            for bits in _all_bools(len(dec)):
                cases.append(f"(2 {T(codec)} {T(bits)})")
                expect.append(T(impl_result(lambda: impl.encode(codec, bits))))
                keys.append(f"{codec}:e:{bits}")
        from richchk.transcoder.richchk.transcoders.helpers.richchk_enum_transcoder import RichChkEnumTranscoder as X
        for name, (E, rows) in es.items():
            for n in range(enum_limit):
                cases.append(f"(3 {T(name)} {n})")
                expect.append(T(impl_result(lambda: X.decode_enum(n, E)._name_)))
                keys.append(f"{name}:d:{n}")
            for m in E:
                cases.append(f"(4 {T(name)} {T(m._name_)})")
                expect.append(T(impl_result(lambda: X.encode_enum(m))))
                keys.append(f"{name}:e:{m._name_}")
        got = vlib.run_model("C12", cases)
        mism = [(c, e, g) for c, e, g in zip(cases, expect, got) if e != g]
        ck.corr_count("flags+enums: impl vs extracted model", len(cases), len(mism))
        for k in keys:
            ck.note_case(k)
        ck.sample({"case": cases[37], "impl": expect[37], "model": got[37]})
        ck.sample({"case": cases[-1], "impl": expect[-1], "model": got[-1]})
        if mism:
            ck.notes.append("first model/impl mismatches: " + json.dumps(mism[:3]))
        ck.exhaustive = True
    elif drv_ok:
        ck.notes.append("flag translator failed; correspondence skipped, property evaluated on the implementation only")
    if drv_ok:
        scalar_correspondence(ck, hv, tags)


def scalar_correspondence(ck, hv, tags):
    """hit points and AI scripts: the hand models of coq/model/Scalars.v against the implementation"""
    from decimal import Decimal
    from richchk.model.richchk.trig.enums.ai_script import KnownAiScript
    from richchk.model.richchk.unis.unit_id import UnitId
    from richchk.transcoder.richchk.transcoders.helpers.ai_script_transcoder import AiScriptTranscoder as A
    from richchk.transcoder.richchk.transcoders.helpers.unit_hitpoints_transcoder import UnitHitpointsTranscoder as H
    members = [m.value for m in KnownAiScript]
    cases, expect = [], []
    for raw in hv:
        cases.append(f"(5 {raw})")
        d = H.decode_hitpoints(UnitId.TERRAN_MARINE, raw) * 10 ** 8
        expect.append(str(int(d)) if d == int(d) else "inexact")
        units = raw * 390625 + (raw % 7) * 1000     # also values that are NOT whole 1/256 units
        cases.append(f"(6 {units})")
        expect.append(str(H.encode_hitpoints(Decimal(units) / Decimal(10 ** 8))))
    for tag in sorted(set(tags)):
        n = struct.unpack("I", tag)[0]
        cases.append(f"(7 {n})")

        def dec():
            s = A.decode(n)
            for i, m in enumerate(members):
                if s is m:
                    return [0, i]
            return [1, [ord(c) for c in s.name]]
        r = impl_result(dec)
        expect.append(T(r) if r[0] == 1 else f"(0 {r[1]})")
    got = vlib.run_model("C12", cases)
    mism = [(c, e, g) for c, e, g in zip(cases, expect, got) if e != g]
    ck.corr_count("hit points + AI scripts: impl vs extracted model", len(cases), len(mism))
    if mism:
        ck.notes.append("first scalar model/impl mismatches: " + json.dumps(mism[:3]))


FALLBACK_FIELDS = {
    "action_flags_codec": (8, ["ignore_wait_or_transmission_once", "disabled", "always_display",
                               "unit_properties_is_used", "unit_type_is_used"]),
    "condition_flags_codec": (8, ["unknown", "disabled", "always_display", "unit_properties_is_used",
                                  "unit_type_is_used"]),
    "elevation_flags_codec": (16, ["low_elevation", "medium_elevation", "high_elevation", "low_air", "medium_air",
                                   "high_air"]),
    "cuwp_unit_property_flags_codec": (16, ["cloaked", "burrowed", "building_in_transit", "hallucinated",
                                            "invincible", "unknown_flag"]),
    "cuwp_valid_special_flags_codec": (16, ["cloak_valid", "burrowed_valid", "in_transit_valid",
                                            "hallucinated_valid", "invincible_valid", "unknown_flag"]),
    "cuwp_valid_unit_flags_codec": (16, ["owner_play_valid", "hp_valid", "shields_valid", "energy_valid",
                                         "resource_amount_valid", "hanger_amount_valid", "unknown_flag"]),
}


def replay(path: str) -> int:
    rp = json.loads(open(path).read())
    print("replaying", rp.get("what"))
    kind = rp.get("kind")
    import translate_flags
    if kind == "flags":
        try:
            tables = translate_flags.tables()
        except Exception:
            tables = {n: (w, [(f, i + 1, False) for i, f in enumerate(fs)], None)
                      for n, (w, fs) in FALLBACK_FIELDS.items()}
        impl = Impl(tables)
        bad = flags_oracle(impl, rp["codec"])
        print("still failing:" if bad else "no longer failing", bad)
        return 1 if bad else 0
    if kind == "hitpoints":
        bad = hp_oracle_case(rp["raw"])
        print("still failing:" if bad else "no longer failing", bad)
        return 1 if bad else 0
    if kind == "ai_script":
        bad = ai_oracle_case(bytes(rp["tag"]))
        print("still failing:" if bad else "no longer failing", bad)
        return 1 if bad else 0
    if kind == "enum":
        import translate_enums
        E = translate_enums.enums()[rp["enum"]][0]
        bad = enum_oracle(E, 70000)
        print("still failing:" if bad else "no longer failing", bad)
        return 1 if bad else 0
    print(json.dumps(rp, indent=1)[:3000])
    return 1
