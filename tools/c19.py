"""C19 — decoding arbitrary bytes terminates with an error or a writable model."""
from __future__ import annotations

import json
import signal
from pathlib import Path

import c01
import sections as S
import vlib
from vlib import T

PROP = "C19"


class _Timeout(Exception):
    pass


def _alarm(signum, frame):
    raise _Timeout()


def oracle(b: bytes, timeout_s=10):
    """None when the property holds on b, else a description"""
    signal.signal(signal.SIGALRM, _alarm)
    signal.setitimer(signal.ITIMER_REAL, timeout_s)
    try:
        try:
            m = S.impl_decode(b)
        except _Timeout:
            return "decode did not terminate within %ds" % timeout_s
        except Exception:
            return None  # raising is allowed
        try:
            out = S.impl_encode(m)
        except _Timeout:
            return "encode did not terminate"
        except Exception as ex:  # noqa
            return f"decoded model cannot be written back: {ex!r}"
        try:
            m2 = S.impl_decode(out)
        except _Timeout:
            return "second decode did not terminate"
        except Exception as ex:  # noqa
            return f"the written bytes do not decode: {ex!r}"
        if m2 != m:
            return "the written bytes decode to a different model"
        return None
    finally:
        signal.setitimer(signal.ITIMER_REAL, 0)


def shrink(b: bytes, budget_s=60) -> bytes:
    """greedy: cut from the end, then drop leading chunks, while the property still fails (within a time budget;
    a non-terminating candidate costs its whole time limit, so the limit is short here)"""
    import time
    t0 = time.time()
    full_oracle = globals()["oracle"]

    def oracle(x):  # the module's oracle with a short limit, inside a budget
        if time.time() - t0 > budget_s:
            return None
        return full_oracle(x, timeout_s=3)
    cur = b
    step = max(1, len(cur) // 2)
    while step >= 1:
        if len(cur) > step and oracle(cur[:-step]) is not None:
            cur = cur[:-step]
        else:
            step //= 2
    chunks = c01.split_chunks(cur)
    i = 0
    while len(chunks) > 1 and i < len(chunks):
        cand = b"".join(chunks[:i] + chunks[i + 1:]) + cur[len(b"".join(chunks)):]
        if oracle(cand) is not None:
            chunks = chunks[:i] + chunks[i + 1:]
            cur = cand
        else:
            i += 1
    return cur


def run(ck: vlib.Check):
    n = 1500 if ck.tier == "quick" else 60000
    ck.rule = ("malformed stream: random bytes; truncations of generated and fixture maps at random cut points and at "
               "every chunk boundary / inside every header of the fixtures; single-byte corruptions; size fields "
               "beyond the data; fixed sections too short/long; string data without NUL / with 8-bit bytes / with "
               "absurd counts; plus well-formed maps. Per-case wall-clock limit for termination. Distinct = distinct "
               "byte strings; non-trivial = non-empty.")
    built, props_ok, drv_ok = c01.common_build(ck, "props/C19.v", ["proofs/C01_proofs.vo"])
    rng = ck.rng
    fx = [b for _, b in c01.fixtures()]
    small_fx = [b for b in fx if len(b) < 300000]
    cases = []
    # fixtures: truncation at every chunk boundary and inside every header
    for b in small_fx:
        pos = 0
        for ch in c01.split_chunks(b):
            for cut in (pos, pos + 1, pos + 3, pos + 4, pos + 5, pos + 7, pos + 8, pos + 9):
                if cut <= len(b):
                    cases.append((b[:cut], "fixture-truncated"))
            pos += len(ch)
    if ck.tier == "quick":
        rng.shuffle(cases)
        cases = cases[:150]
    # size fields that, read as a SIGNED number, point back at an earlier chunk header or at the header itself (a decoder
    # that rewinds on such a size can be sent round in circles): a header appended to small maps and to one fixture
    backs = []
    for _ in range(12):
        b0, _k = S.gen_wellformed_chk(rng, 3)
        backs.append(b0)
    backs += small_fx[:1]
    for b0 in backs:
        starts, pos = [], 0
        for ch in c01.split_chunks(b0):
            starts.append(pos)
            pos += len(ch)
        end = len(b0) + 8
        for tgt in (starts[:3] + starts[-2:] + [len(b0)]):
            k = end - tgt
            cases.insert(0, (b0 + b"JUNK" + (2 ** 32 - k).to_bytes(4, "little"), "back-pointing-size"))
        cases.insert(0, (b0 + b"JUNK" + (2 ** 32 - 1).to_bytes(4, "little"), "back-pointing-size"))
    # string sections larger than their offset width can address (STR: strings that START beyond byte 65535; ids whose
    # 16-bit offsets all lie below): the decoder takes them, so the encoder must write them back
    import struct
    for total, ln in ((66000, 1000), (70000, 7), (65536 + 40, 65530), (131072, 500)):
        strs, size = [], 0
        while size < total:
            strs.append(bytes(65 + (len(strs) + i) % 26 for i in range(ln)))
            size += ln + 1
        for nids in (0, 3):
            hdr = 2 + 2 * nids
            offs, pos = [], hdr
            for s_ in strs[:nids]:
                offs.append(pos if pos < 65536 else hdr)
                pos += len(s_) + 1
            payload = struct.pack("H", nids) + b"".join(struct.pack("H", o) for o in offs) + b"".join(s_ + b"\0" for s_ in strs)
            cases.insert(0, (S.frame(b"VER ", b"\xcd\x00") + S.frame(b"STR ", payload) + S.frame(b"TAIL", b"x"), "str-over-64k"))
    # record arrays longer than any editor writes (the decoder takes every whole number of records): 255, 256, 300, 1000 locations;
    # 1, 30 and 200 triggers
    for nrec in (255, 256, 300, 1000):
        body = bytes(((7 * i) % 250) + 1 for i in range(20 * nrec))
        cases.insert(0, (S.frame(b"VER ", b"\xcd\x00") + S.frame(b"MRGN", body) + S.frame(b"TAIL", b"x"), "long-record-array"))
    for ntr in (30, 200):
        cases.insert(0, (S.frame(b"TRIG", bytes(2400 * ntr)) + S.frame(b"TAIL", b"x"), "long-record-array"))
    for _ in range(n):
        cases.append(S.gen_malformed_chk(rng, small_fx[:1] if rng.random() < 0.02 else []))
    for _ in range(n // 10):
        b, _k = S.gen_wellformed_chk(rng, 4)
        cases.append((b, "wellformed"))
    dist = {}
    outcome = {"raises": 0, "ok": 0}
    for b, label in cases:
        dist[label] = dist.get(label, 0) + 1
        bad = oracle(b)
        ck.evaluations += 1
        if b:
            ck.note_case(b.hex())
        if bad:
            hung = "terminate" in bad
            # a non-terminating input is reported as it is (every shrink candidate would cost its whole time limit)
            small = b if hung else shrink(b)
            ck.violation(f"{bad} ({label})", {"kind": "stability", "input_hex": small.hex(), "detail": oracle(small),
                                             "label": label}, True)
            break
    ck.extra["input_distribution"] = dist
    if drv_ok and any("terminate" in v["what"] for v in ck.violations):
        ck.notes.append("correspondence stage skipped: the implementation does not terminate on an input of this stream")
        drv_ok = False
    if drv_ok:
        layouts = S.load_layouts()
        sub = [c for c in cases if len(c[0]) < 60000][: (700 if ck.tier == "quick" else 20000)]
        lines = [f"(1 {T(b)})" for b, _ in sub]
        got = vlib.run_model("C01", lines)
        exp = [S.tree_text(S.impl_decode_tree(b, layouts)) for b, _ in sub]
        for e in exp:
            outcome["ok" if e.startswith("(1 ") else "raises"] += 1
        mism = [i for i, (g, e) in enumerate(zip(got, exp)) if g != e]
        ck.corr_count("decode of malformed input: impl vs extracted model (result or error class)", len(lines), len(mism))
        if mism:
            i = mism[0]
            ck.notes.append(f"first mismatch ({sub[i][1]}): input {sub[i][0][:80].hex()} impl {exp[i][:120]} model {got[i][:120]}")
        lines2 = [f"(2 {T(b)})" for b, _ in sub]
        got2 = vlib.run_model("C01", lines2)
        exp2 = [T(S.impl_roundtrip(b)) for b, _ in sub]
        mism2 = [i for i, (g, e) in enumerate(zip(got2, exp2)) if g != e]
        ck.corr_count("decode+encode of malformed input: impl vs extracted model", len(lines2), len(mism2))
        if mism2:
            i = mism2[0]
            ck.notes.append(f"first rt mismatch ({sub[i][1]}): input {sub[i][0][:80].hex()} impl {exp2[i][:120]} model {got2[i][:120]}")
        ck.extra["impl_outcomes"] = outcome
        ck.sample({"input_hex": sub[0][0][:60].hex(), "label": sub[0][1], "impl": exp[0][:80]})
        ck.sample({"input_hex": sub[-1][0][:60].hex(), "label": sub[-1][1], "impl": exp[-1][:80]})


def replay(path: str) -> int:
    rp = json.loads(Path(path).read_text())
    print("replaying:", rp.get("what"))
    if "input_hex" in rp:
        bad = oracle(bytes.fromhex(rp["input_hex"]))
        print("still failing: " + bad if bad else "no longer failing")
        return 1 if bad else 0
    print(json.dumps(rp, indent=1)[:3000])
    return 1
