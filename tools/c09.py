"""C09 — slot allocation is sound and fails loudly when full."""
from __future__ import annotations

import json
import random
from pathlib import Path

import vlib

PROP = "C09"
TABLES = {  # which -> (lo, hi, reserved)
    1: (1, 255, {64}), 2: (1, 64, set()), 3: (0, 511, set()), 4: (0, 255, set()), 5: (0, 255, set()),
}
NAMES = {1: "locations", 2: "unit-property slots", 3: "WAV slots", 4: "switches (editor)", 5: "switches (save rebuild)"}


class OrderedBag(list):
    """stands in for a set with a forced iteration order"""

    def union(self, *others):
        out = OrderedBag(self)
        for o in others:
            for x in o:
                if x not in out:
                    out.append(x)
        return out


def imports():
    from richchk.editor.richchk.rich_mrgn_editor import RichMrgnEditor
    from richchk.editor.richchk.rich_swnm_editor import RichSwnmEditor
    from richchk.editor.richchk.rich_uprp_editor import RichUprpEditor
    from richchk.editor.richchk.rich_wav_editor import RichWavEditor
    from richchk.io.richchk.lookups.swnm.rich_swnm_rebuilder import RichSwnmRebuilder
    from richchk.model.richchk.mrgn.rich_location import RichLocation
    from richchk.model.richchk.mrgn.rich_mrgn_section import RichMrgnSection
    from richchk.model.richchk.rich_chk import RichChk
    from richchk.model.richchk.str.rich_string import RichNullString, RichString
    from richchk.model.richchk.swnm.rich_switch import RichSwitch
    from richchk.model.richchk.swnm.rich_swnm_section import RichSwnmSection
    from richchk.model.richchk.uprp.rich_cuwp_slot import RichCuwpSlot
    from richchk.model.richchk.uprp.rich_uprp_section import RichUprpSection
    from richchk.model.richchk.wav.rich_wav import RichWav
    from richchk.model.richchk.wav.rich_wav_section import RichWavSection
    return locals()


def gen_case(rng: random.Random, which: int):
    """(existing ids, requests) ; request = ("carry", k) | ("fresh",) | ("skip", existing id)"""
    lo, hi, reserved = TABLES[which]
    space = [i for i in range(lo, hi + 1)]
    mode = rng.choice(["empty", "sparse", "dense", "full", "only-reserved-free", "almost-full"])
    if mode == "empty":
        existing = []
    elif mode == "sparse":
        existing = rng.sample(space, k=rng.randrange(1, 12))
    elif mode == "dense":
        existing = rng.sample(space, k=len(space) - rng.randrange(2, 20))
    elif mode == "full":
        existing = list(space)
    elif mode == "only-reserved-free":
        existing = [i for i in space if i not in reserved]
    else:
        existing = rng.sample(space, k=len(space) - rng.choice([1, 2, 3]))
    # which == 5: "existing" are the switches that only have a name in the map's SWNM section (no trigger uses
    # them); a request carrying such an index is the very same switch, found again in a trigger
    free = [i for i in space if i not in existing]
    reqs = []
    for _ in range(rng.choice([0, 1, 2, 3, 5, 8])):
        m = rng.random()
        if m < 0.45:
            reqs.append(("fresh",))
        elif m < 0.6 and free:
            reqs.append(("carry", rng.choice(free)))       # carries a free index
        elif m < 0.75 and existing:
            reqs.append(("carry", rng.choice(existing)))   # already placed / occupied index
        elif m < 0.8 and reqs and which != 3:
            c = [r for r in reqs if r[0] == "carry"]
            reqs.append(rng.choice(c) + ("dup",) if c else ("fresh",))  # second object carrying the same index
        elif m < 0.9 and existing and which in (2, 3):
            reqs.append(("skip", rng.choice(existing)))    # equal contents / equal path
        elif which == 1 and m < 0.95:
            reqs.append(("carry", 64))
        else:
            reqs.append(("fresh",))
    if which == 3:  # WAV requests are paths: carry makes no sense; a repeated path is a skip
        reqs = [("fresh",) if r[0] == "carry" else r for r in reqs]
    if which in (4, 5):
        reqs = [r for r in reqs if r[0] != "skip"]
    if which == 5:  # set semantics: equal (same index) switches collapse; keep distinct carried indices
        seen, out = set(), []
        for r in reqs:
            if r[0] == "carry":
                if r[1] in seen:
                    continue
                seen.add(r[1])
            out.append(r[:2] if r[0] == "carry" else r)
        reqs = out
    return existing, reqs


def carried_first(reqs):
    return [r for r in reqs if r[0] == "carry"] + [r for r in reqs if r[0] != "carry"]


def run_impl(M, which, existing, reqs):
    """returns ([1, outcomes] | [0, err]), final ids (or None); outcomes in the model's output order"""
    serial = [0]

    def nxt():
        serial[0] += 1
        return serial[0]

    if which == 1:
        ex = [M["RichLocation"](i, i, i, i, M["RichNullString"](), _index=i) for i in existing]
        objs = []
        for r in reqs:
            s = 1000 + nxt()
            objs.append(M["RichLocation"](s, s, s, s, M["RichNullString"](), _index=(r[1] if r[0] == "carry" else None)))
        ed = M["RichMrgnEditor"]()
        ed._build_location_set = lambda locs: list(objs)

        def f():
            sec, lookup = ed.add_locations(objs, M["RichMrgnSection"](_locations=ex))
            by_serial = {l.left_x1: l.index for l in sec.locations if l.left_x1 >= 1000}
            order = carried_first(list(zip(reqs, objs)))
            outs = []
            for (r, o) in [(r, o) for r, o in zip(reqs, objs) if r[0] == "carry"] + \
                          [(r, o) for r, o in zip(reqs, objs) if r[0] != "carry"]:
                outs.append([1, by_serial[o.left_x1]] if o.left_x1 in by_serial else [0])
            return outs, [l.index for l in sec.locations]
    elif which == 2:
        ex = [M["RichCuwpSlot"](i % 256, i // 256, 1, _index=i) for i in existing]
        objs = []
        for r in reqs:
            if r[0] == "skip":
                i = r[1]
                objs.append(M["RichCuwpSlot"](i % 256, i // 256, 1))
            else:
                s = nxt()
                objs.append(M["RichCuwpSlot"](s % 256, s // 256, 2, _resource_amount=s,
                                              _index=(r[1] if r[0] == "carry" else None)))
        ed = M["RichUprpEditor"]()
        ed._build_set_for_new_entries = lambda c: list(objs)

        def f():
            sec = ed.add_cuwp_slots(objs, M["RichUprpSection"](_cuwp_slots=ex))
            by_serial = {c.resource_amount: c.index for c in sec.cuwp_slots if c.energypoints_percentage == 2}
            outs = []
            for (r, o) in [(r, o) for r, o in zip(reqs, objs) if r[0] == "carry"] + \
                          [(r, o) for r, o in zip(reqs, objs) if r[0] != "carry"]:
                outs.append([1, by_serial[o.resource_amount]]
                            if r[0] != "skip" and o.resource_amount in by_serial else [0])
            return outs, [c.index for c in sec.cuwp_slots]
    elif which == 3:
        # a sound table may list ONE path in two slots: slot i (i = 3 mod 7) repeats the path of slot i - 1 when that is occupied
        exs = set(existing)

        def path_of(i):
            return f"e{i - 1}.wav" if (i % 7 == 3 and (i - 1) in exs) else f"e{i}.wav"
        ex = [M["RichWav"](_path_in_chk=M["RichString"](path_of(i)), _index=i) for i in existing]
        paths = []
        for r in reqs:
            paths.append(path_of(r[1]) if r[0] == "skip" else f"n{nxt()}.wav")
        ed = M["RichWavEditor"]()

        def f():
            sec = ed.add_wav_files(paths, M["RichWavSection"](_wavs=ex))
            by_path = {w.path_in_chk.value: w.index for w in sec.wavs if w.path_in_chk.value.startswith("n")}
            return [([1, by_path[p]] if p in by_path else [0]) for p in paths], [w.index for w in sec.wavs]
    elif which == 4:
        ex = [M["RichSwitch"](M["RichString"](f"e{i}"), i) for i in existing]
        objs = [M["RichSwitch"](M["RichString"](f"n{nxt()}"), (r[1] if r[0] == "carry" else None)) for r in reqs]
        ed = M["RichSwnmEditor"]()
        ed._build_switches_set = lambda s: list(objs)

        def f():
            sec = ed.add_switches(objs, M["RichSwnmSection"](_switches=ex))
            by_name = {s.custom_name.value: s.index for s in sec.switches if s.custom_name.value.startswith("n")}
            ordered = [o for r, o in zip(reqs, objs) if r[0] == "carry"] + [o for r, o in zip(reqs, objs) if r[0] != "carry"]
            return [([1, by_name[o.custom_name.value]] if o.custom_name.value in by_name else [0]) for o in ordered], \
                   [s.index for s in sec.switches]
    else:
        objs = [M["RichSwitch"](M["RichString"](f"e{r[1]}" if (r[0] == "carry" and r[1] in existing) else f"n{nxt()}"),
                                (r[1] if r[0] == "carry" else None)) for r in reqs]
        R = M["RichSwnmRebuilder"]
        named = M["RichSwnmSection"](_switches=[M["RichSwitch"](M["RichString"](f"e{i}"), i) for i in existing])

        def f():
            orig = R._find_all_switches_in_rich_chk
            R._find_all_switches_in_rich_chk = classmethod(lambda cls, chk: OrderedBag(objs))
            try:
                sec, lookup = R.rebuild_rich_swnm_from_rich_chk(M["RichChk"](_chk_sections=[named] if existing else []))
            finally:
                R._find_all_switches_in_rich_chk = orig
            outs = []
            for o in objs:
                i = lookup._id_by_switch_lookup.get(o)
                outs.append([1, i] if i is not None else [0])
            return outs, [s.index for s in sec.switches]
    try:
        outs, final = f()
        return [1, outs], final
    except Exception as ex:  # noqa
        return [0, vlib.err_code(ex)], None


def oracle(which, existing, reqs, res, final):
    """the property on the implementation's result"""
    lo, hi, reserved = TABLES[which]
    order = carried_first(reqs) if which in (1, 2, 4) else reqs
    free = [i for i in range(lo, hi + 1) if i not in existing and i not in reserved]
    n_fresh = sum(1 for r in reqs if r[0] == "fresh")
    if res[0] == 0:
        if n_fresh == 0 and not (which == 5 and any(r[0] == "carry" and r[1] > hi for r in reqs)):
            return "raised although no new slot was needed"
        # raising is right only when slots are genuinely short
        carried_free = {r[1] for r in reqs if r[0] == "carry" and r[1] in free}
        if which == 5:
            carried_free = {r[1] for r in reqs if r[0] == "carry"} | set(existing)
            free = [i for i in range(lo, hi + 1) if i not in carried_free]
            if any(r[0] == "carry" and r[1] > hi for r in reqs):
                return None
            return None if n_fresh > len(free) else "raised although enough ids were free"
        if n_fresh > len([i for i in free if i not in carried_free]):
            return None
        return "raised although enough slots were free"
    outs = res[1]
    placed = [o[1] for o in outs if o[0] == 1]
    if len(set(placed)) != len(placed):
        return f"one slot given to two objects: {placed}"
    seen_carried = set()
    for r, o in zip(order, outs):
        if r[0] == "carry" and which != 5:
            # an object that carries a free index of the table keeps it, however full the table is and in whatever
            # order the batch is walked (the first object carrying that index, when several do)
            if r[1] not in existing and lo <= r[1] <= hi and r[1] not in seen_carried and o != [1, r[1]]:
                return f"object carrying the free index {r[1]} was not placed there (got {o})"
            seen_carried.add(r[1])
        if r[0] == "carry":
            if o[0] == 1 and o[1] != r[1]:
                return f"object carrying index {r[1]} was moved to {o[1]}"
            if o[0] == 1 and which != 5 and r[1] in existing:
                return f"carried index {r[1]} was occupied but the object was placed over it"
        elif r[0] == "fresh":
            if o[0] == 1:
                i = o[1]
                if not (lo <= i <= hi) or i in reserved:
                    return f"new id {i} outside the range / reserved"
                if i in existing:
                    return f"new id {i} was not free" + (" (it belongs to a switch that has a name in the SWNM)" if which == 5 else "")
                if which == 5 and any(q[0] == "carry" and q[1] == i for q in reqs):
                    return f"new id {i} is an index a used switch carries"
            elif which != 1:
                return "an object that needed a slot got none and nothing was raised"
        elif r[0] == "skip" and o[0] == 1:
            return "an object equal to an existing one took a second slot"
    if which != 5 and final is not None:
        kept = final[:len(existing)]
        if kept != list(existing):
            return "existing slots were reordered or replaced"
    return None


def section_level_drops(ck):
    import random as _r
    import authoring as A
    import c11
    import scenarios as SC
    out = []
    bases = [(n_, b) for n_, b in SC.fixtures() if "scx" in n_][:1] + \
            [("synthetic", SC.MapGen(_r.Random(17), "editor", nloc=255, all_sections=True, ntrig=1).build())]
    for label, base in bases:
        vb = SC.SpecView(base)
        free = {"locs": [i + 1 for i, l in enumerate(vb.locs) if not any(l.values()) and i + 1 != 64],
                "cuwps": [i + 1 for i, c in enumerate(vb.cuwps or []) if not any(c.values())],
                "switches": [k for k in range(256) if not (vb.swnm and vb.swnm[k])]}
        for pick in (None, 0, -1):
            for referenced in (False, True):
                for kind in ("locs", "cuwps", "switches"):
                    if pick is not None and not free[kind]:
                        continue
                    idx = None if pick is None else free[kind][pick]      # a slot the base map leaves free
                    pool = {"locs": [[1, 1, 2, 2, None, None, [True] * 6]], "switches": [], "cuwps": []}
                    if kind == "locs":
                        pool["locs"].append([3111, 3222, 3333, 3444, "sec loc", idx, [True] * 6])
                        put, acts = {"locs": [1]}, c11._loc_acts([1])
                    elif kind == "cuwps":
                        pool["cuwps"].append([91, 82, 73, 6464, 5, [False] * 5, [True] * 5 + [False], [True] * 6 + [False], False, 0, idx])
                        put, acts = {"cuwps": [0]}, c11._cuwp_acts([0])
                    else:
                        pool["switches"].append(["sec switch", idx])
                        put, acts = {"switches": [0]}, c11._switch_acts([0])
                    spec = {"pool": pool, "ops": [["put_in_sections", put]] + ([c11._trigs(acts)] if referenced else [])}
                    r = A.run_impl(base, spec)
                    ck.evaluations += 1
                    ck.note_case(f"section-drop:{label}:{kind}:{idx}:{referenced}")
                    if r[0] == 0:
                        continue
                    v = SC.SpecView(bytes(r[1]))
                    if kind == "locs":
                        present = any(l["_left_x1"] == 3111 and l["_bottom_y2"] == 3444 for l in v.locs)
                    elif kind == "cuwps":
                        present = any(c["_hitpoints_percentage"] == 91 and c["_resource_amount"] == 6464 for c in (v.cuwps or []))
                    else:
                        present = any(v.switch(k)[1] == "sec switch" for k in range(256))
                    # an unreferenced, unnamed-index switch / an unreferenced index-less object has no slot to claim: the
                    # only acceptable outcomes are "present" or "raised"
                    if not present:
                        out.append((f"{label}: a {kind[:-1]} put into its rich section (index {idx}, "
                                    f"{'used' if referenced else 'not used'} by a trigger) is missing from the saved map and "
                                    f"nothing was raised",
                                    {"kind": "section-drop", "label": label, "base_hex": base.hex(), "spec": spec}))
    return out


def reference_level_cases(ck):
    """the slot numbers the save WRITES INTO TRIGGERS for equal objects of which one carries an index: each must name a slot
    that holds the object (the allocation is only as good as the lookup that answers it)"""
    import random as _r
    import authoring as A
    import c11
    import scenarios as SC
    import validator
    out = []
    bases = [(n_, b) for n_, b in SC.fixtures() if "scx" in n_][:1] + \
            [("synthetic", SC.MapGen(_r.Random(17), "editor", nloc=255, all_sections=True, ntrig=1).build())]
    for label, base, spec in c11.equal_twin_cases(bases):
        r = A.run_impl(base, spec)
        ck.evaluations += 1
        ck.note_case(label)
        if r[0] == 0:
            continue
        problems = validator.validate(bytes(r[1]))
        if problems:
            out.append((f"{label}: a trigger of the saved map refers to a slot that does not hold the object: {problems[0]}",
                        {"kind": "dangling-reference", "label": label, "base_hex": base.hex(), "spec": spec}))
    return out


def model_line(which, existing, reqs):
    def rq(r):
        return "(1 %d)" % r[1] if r[0] == "carry" else ("(2)" if r[0] == "skip" else "(0)")
    if which == 5:
        # the rebuild iterates the trigger switches, then the named SWNM switches not among them, by index
        have = {r[1] for r in reqs if r[0] == "carry"}
        reqs = list(reqs) + [("carry", k) for k in sorted(existing) if k not in have]
    return f"({which} ({' '.join(map(str, existing))}) ({' '.join(rq(r) for r in reqs)}))"


def run(ck: vlib.Check):
    n = 500 if ck.tier == "quick" else 20000
    ck.rule = ("for each of the five allocators: occupancy patterns {empty, sparse, dense, full, only the reserved slot "
               "free, almost full} x batches {new, carrying a free / an occupied / the reserved index, two objects "
               "carrying one index, equal contents / equal path} x forced iteration orders (the editors' set builders "
               "are replaced by ordered lists, every case also run reversed and shuffled); implementation outcome per "
               "object vs extracted model; the slot numbers written into triggers for equal objects of which one carries an index; and the property evaluated on the implementation's result. Distinct = "
               "distinct (table, occupancy, request list).")
    ck.regen(["consts"])
    with vlib.build_lock():
        built = ck.build(["model/RunC09.vo", "proofs/C09_proofs.vo"])
        props_ok = built and ck.check_props("props/C09.v")
        drv_ok = False
        if ck.build(["model/RunC09.vo"]) if not built else True:
            drv_ok, out = vlib.build_driver(PROP)
            ck.oblige("extraction+driver:C09", drv_ok, out)
    rng = ck.rng
    M = imports()
    cases = []
    for i in range(n):
        which = 1 + i % 5
        existing, reqs = gen_case(rng, which)
        for variant in range(3):
            rr = list(reqs)
            if variant == 1:
                rr.reverse()
            elif variant == 2:
                rng.shuffle(rr)
            cases.append((which, existing, rr))
    # regression corpus (minimal historical failures)
    cases[:0] = [
        (1, list(range(1, 63)), [("fresh",), ("fresh",), ("fresh",)]),
        (1, [], [("fresh",), ("carry", 1)]),
        (1, [], [("carry", 7), ("carry", 7, "dup")]),
        (2, list(range(1, 65)), [("carry", 4)]),
        (2, [1], [("skip", 1)]),
        (3, list(range(512)), [("skip", 3)]),
        (3, [], [("fresh",), ("fresh",)]),
        (4, list(range(256)), [("carry", 3)]),
        (4, [5], [("carry", 0)]),
    ]
    lines, exp = [], []
    dist = {}
    for which, existing, reqs in cases:
        res, final = run_impl(M, which, existing, reqs)
        bad = oracle(which, existing, reqs, res, final)
        ck.evaluations += 1
        dist[NAMES[which]] = dist.get(NAMES[which], 0) + 1
        line = model_line(which, existing, reqs)
        ck.note_case(line)
        lines.append(line)
        exp.append(vlib.T(res) if res[0] == 1 else "(0)")
        if bad:
            ck.violation(f"{NAMES[which]}: {bad}", {"kind": "alloc", "which": which, "existing": existing,
                                                   "requests": [list(r) for r in reqs], "result": res}, True)
            break
    ck.extra["cases_per_table"] = dist
    # objects placed straight into a rich section (not through an editor), with or without an index, referred to by
    # a trigger or not: each must be in the saved file, or the save must raise - never vanish
    for bad in section_level_drops(ck) + reference_level_cases(ck):
        ck.violation(bad[0], bad[1], True)
    if drv_ok:
        got = vlib.run_model(PROP, lines)
        got = [g if g.startswith("(1 ") else "(0)" for g in got]
        for i, (which, existing, reqs) in enumerate(cases):
            if which == 5 and got[i].startswith("(1 "):     # outcomes of the requests only (the SWNM-only switches follow)
                t = vlib.parse_tree(got[i])
                got[i] = vlib.T([1, t[1][:len(reqs)]])
        mism = [i for i, (g, e) in enumerate(zip(got, exp)) if g != e]
        ck.corr_count("allocators: impl outcome per object vs extracted model", len(lines), len(mism))
        if mism:
            i = mism[0]
            ck.notes.append(f"first mismatch: {lines[i][:400]} impl {exp[i][:300]} model {got[i][:300]}")
        ck.sample({"case": lines[0][:300], "impl": exp[0][:200]})
        ck.sample({"case": lines[-1][:300], "impl": exp[-1][:200]})


def replay(path: str) -> int:
    rp = json.loads(Path(path).read_text())
    print("replaying:", rp.get("what"))
    if rp.get("kind") == "section-drop":
        import authoring as A
        r = A.run_impl(bytes.fromhex(rp["base_hex"]), rp["spec"])
        print("the call still succeeds; inspect the output" if r[0] == 1 else "no longer failing (raises)")
        return 1 if r[0] == 1 else 0
    if rp.get("kind") == "dangling-reference":
        import authoring as A
        import validator
        r = A.run_impl(bytes.fromhex(rp["base_hex"]), rp["spec"])
        problems = validator.validate(bytes(r[1])) if r[0] == 1 else []
        print("still failing: " + problems[0] if problems else "no longer failing")
        return 1 if problems else 0
    if rp.get("kind") == "alloc":
        M = imports()
        reqs = [tuple(r) for r in rp["requests"]]
        res, final = run_impl(M, rp["which"], rp["existing"], reqs)
        bad = oracle(rp["which"], rp["existing"], reqs, res, final)
        print("still failing: " + bad if bad else "no longer failing", res)
        return 1 if bad else 0
    print(json.dumps(rp, indent=1)[:3000])
    return 1
