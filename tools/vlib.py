"""Shared machinery for the richchk proof checks: regeneration of coq/gen/*.v from /repo,
Coq build + Print Assumptions capture, extraction/driver build, model evaluation,
evidence and violation reporting.  Run with /venv/bin/python (richchk importable)."""

from __future__ import annotations

import contextlib
import fcntl
import hashlib
import json
import os
import random
import re
import shutil
import subprocess
import sys
import time
import traceback
from pathlib import Path
from typing import Any, Callable, Iterable, Optional

# the development this file belongs to: /verif when run as registered, a snapshot when run through `vp run`
VERIF = Path(__file__).resolve().parent.parent
REPO = Path(os.environ.get("VERIF_REPO", "/repo"))
SRC = REPO / "src"
# the library makes <package>/util/logs on its first import with a check-then-mkdir; the checks start many fresh interpreters in
# parallel, and on a freshly restored tree (the directory is git-ignored) two first imports could race and one fail.  The parent
# process makes the directory once, before any worker exists.
try:
    (SRC / "richchk" / "util" / "logs").mkdir(exist_ok=True)
except OSError:
    pass
PKG = SRC / "richchk"
COQ = VERIF / "coq"
BUILD = VERIF / "build"
EVID = VERIF / "evidence"
REPLAYS = BUILD / "replays"
NCPU = os.cpu_count() or 4

# make sure the implementation under test is /repo's working tree
if str(SRC) not in sys.path:
    sys.path.insert(0, str(SRC))
os.environ.setdefault("PYTHONHASHSEED", "0")
os.environ["RICHCHK_VERIF"] = "1"

TRUSTED_BASE = [
    "Coq 8.16.1 kernel (coqc), including the vm_compute conversion; no native_compute",
    "no axioms declared by the development; Print Assumptions of every property theorem must be "
    "'Closed under the global context' (checked on every run, allow-list empty)",
    "translators tools/translate_*.py (fail-closed Python-ast readers of /repo/src) for the generated coq/gen/*.v",
    "extraction: Require Extraction + ExtrOcamlBasic only (Extract Inductive for bool, option, unit, list, prod, "
    "sumbool, sumor, comparison as in that file); N/Z/positive/nat stay Coq datatypes; no Extract Constant; "
    "OCaml 4.13.1; ocaml/driver.ml (s-expression reader/printer)",
    "correspondence harness tools/*.py (case generation, canonicalisation, diff) and CPython 3.12 "
    "(struct, io.BytesIO, str.format, int(x, 2), Decimal) on a little-endian host",
    "coq/spec/*.v: hand transcription of the Scenario.chk specification",
    "coq/model/*.v are re-statements of the Python code; theorems are about these models",
]


class TranslatorError(Exception):
    """Raised by a translator when the source leaves the accepted subset (fail-closed)."""


def sh(cmd, timeout=600, cwd=None, env=None, input_=None):
    e = dict(os.environ)
    if env:
        e.update(env)
    try:
        p = subprocess.run(
            cmd, shell=isinstance(cmd, str), cwd=cwd, env=e, input=input_,
            stdout=subprocess.PIPE, stderr=subprocess.STDOUT, timeout=timeout, text=True,
        )
        return p.returncode, p.stdout
    except subprocess.TimeoutExpired as ex:
        out = ex.stdout or ""
        if isinstance(out, bytes):
            out = out.decode("utf-8", "replace")
        return 124, out + "\nTIMEOUT"


@contextlib.contextmanager
def build_lock():
    BUILD.mkdir(exist_ok=True)
    with open(BUILD / ".lock", "w") as f:
        fcntl.flock(f, fcntl.LOCK_EX)
        try:
            yield
        finally:
            fcntl.flock(f, fcntl.LOCK_UN)


# ---------------------------------------------------------------------------------------
# Coq text helpers used by translators


def coq_string(s: str) -> str:
    assert all(32 <= ord(c) < 127 for c in s), s
    return '"' + s.replace('"', '""') + '"'


def coq_list(items: Iterable[str]) -> str:
    items = list(items)
    if not items:
        return "[]"
    return "[" + "; ".join(items) + "]"


def coq_bool(b: bool) -> str:
    return "true" if b else "false"


def coq_N(n: int) -> str:
    assert n >= 0
    return f"{n}%N"


GEN_HEADER = "(* GENERATED from /repo on every run by tools/{tool}; do not edit. *)\n"


# ---------------------------------------------------------------------------------------
# regeneration and build


def write_if_changed(path: Path, text: str) -> bool:
    if path.exists() and path.read_text() == text:
        return False
    path.parent.mkdir(parents=True, exist_ok=True)
    path.write_text(text)
    return True


def regen(gen_modules: list[str]) -> dict[str, Optional[str]]:
    """Run translators (tools/translate_<name>.py exposing generate() -> {relpath: text}).
    Returns {module: None | error text}. A failing translator removes its outputs so that the
    build fails closed."""
    status: dict[str, Optional[str]] = {}
    for name in gen_modules:
        mod = __import__(f"translate_{name}")
        outs = getattr(mod, "OUTPUTS")
        try:
            files = mod.generate()
            for rel, text in files.items():
                write_if_changed(COQ / rel, text)
            status[name] = None
        except Exception as ex:  # fail closed: TranslatorError or anything else
            for rel in outs:
                p = COQ / rel
                for q in (p, p.with_suffix(".vo"), p.with_suffix(".glob")):
                    if q.exists():
                        q.unlink()
            status[name] = f"{type(ex).__name__}: {ex}\n" + traceback.format_exc(limit=4)
    return status


def all_v_files() -> list[str]:
    out = []
    for sub in ("lib", "spec", "gen", "model", "proofs", "props", "extract"):
        d = COQ / sub
        if d.is_dir():
            out += sorted(str(p.relative_to(COQ)) for p in d.glob("*.v"))
    return out


def coq_prepare():
    files = all_v_files()
    text = "-Q . RC\n" + "\n".join(files) + "\n"
    changed = write_if_changed(COQ / "_CoqProject", text)
    if changed or not (COQ / "Makefile").exists():
        rc, out = sh("coq_makefile -f _CoqProject -o Makefile", cwd=COQ, timeout=120)
        if rc != 0:
            raise RuntimeError("coq_makefile failed: " + out)


def coq_make(targets: list[str], timeout=1500) -> tuple[bool, str]:
    """Full .vo build of the given targets (relative .vo paths)."""
    coq_prepare()
    tg = " ".join(targets)
    rc, out = sh(f"timeout {timeout} make -j{NCPU} {tg}", cwd=COQ, timeout=timeout + 30)
    return rc == 0, out


def coqc_capture(vfile: str, timeout=600) -> tuple[bool, str]:
    """Compile one file directly (always re-checks it) and capture its output."""
    rc, out = sh(f"timeout {timeout} coqc -Q . RC {vfile}", cwd=COQ, timeout=timeout + 30)
    return rc == 0, out


ASSUME_RE = re.compile(r"^(Closed under the global context|Axioms:)", re.M)


def parse_props_output(vfile: str, out: str) -> dict:
    """Return theorem names (from the source) and the Print Assumptions verdicts (from coqc output)."""
    src = (COQ / vfile).read_text()
    theorems = re.findall(r"^\s*Theorem\s+(\w+)", src, re.M)
    prints = re.findall(r"^\s*Print Assumptions\s+(\w+)\s*\.", src, re.M)
    closed = len(re.findall(r"Closed under the global context", out))
    axioms = re.findall(r"Axioms:\n((?:.+\n?)+?)(?:\n|$)", out)
    return {"theorems": theorems, "printed": prints, "closed": closed, "axiom_blocks": axioms}


FORBIDDEN = re.compile(
    r"\b(Admitted|admit|Axiom|Axioms|Parameter|Parameters|Conjecture|Admit Obligations|"
    r"Unset Guard Checking|Unset Positivity Checking|Unset Universe Checking|bypass_check|native_compute)\b"
)


def scan_forbidden() -> list[str]:
    bad = []
    for rel in all_v_files():
        txt = (COQ / rel).read_text()
        # strip comments (non-nested is enough for our files)
        txt2 = re.sub(r"\(\*.*?\*\)", "", txt, flags=re.S)
        for m in FORBIDDEN.finditer(txt2):
            bad.append(f"{rel}: {m.group(0)}")
    return bad


# ---------------------------------------------------------------------------------------
# extraction + driver


def build_driver(prop: str, timeout=600) -> tuple[bool, str]:
    """coq/extract/Extract<prop>.v extracts `run : tree -> tree` into build/<prop>/model.ml."""
    d = BUILD / prop
    d.mkdir(parents=True, exist_ok=True)
    ok, out = coqc_capture(f"extract/Extract{prop}.v", timeout=timeout)
    if not ok:
        return False, out
    # Extraction writes model_<prop>.ml(i) into coq/ (cwd); move them
    for ext in ("ml", "mli"):
        src = COQ / f"model_{prop}.{ext}"
        if src.exists():
            shutil.move(str(src), str(d / f"model.{ext}"))
    shutil.copy(VERIF / "ocaml" / "driver.ml", d / "driver.ml")
    rc, out2 = sh(
        "ocamlfind ocamlopt -O2 -w -a -package str model.mli model.ml driver.ml -o driver 2>&1 || "
        "ocamlfind ocamlopt -w -a model.mli model.ml driver.ml -o driver",
        cwd=d, timeout=timeout,
    )
    return rc == 0, out + out2


def _big_stack():
    import resource
    try:
        resource.setrlimit(resource.RLIMIT_STACK, (resource.RLIM_INFINITY, resource.RLIM_INFINITY))
    except Exception:
        try:
            soft, hard = resource.getrlimit(resource.RLIMIT_STACK)
            resource.setrlimit(resource.RLIMIT_STACK, (hard, hard))
        except Exception:
            pass


def run_model(prop: str, cases: list[str], timeout=1800, shards: int = 0) -> list[str]:
    """Feed one s-expression per line to the extracted model; one result line per case."""
    d = BUILD / prop
    exe = d / "driver"
    if not cases:
        return []
    shards = shards or min(NCPU, max(1, len(cases) // 200))
    chunks = [cases[i::shards] for i in range(shards)]
    procs = []
    for ch in chunks:
        p = subprocess.Popen([str(exe)], stdin=subprocess.PIPE, stdout=subprocess.PIPE, text=True,
                             env=dict(os.environ, OCAMLRUNPARAM="l=8G"), preexec_fn=_big_stack)
        procs.append((p, ch))
    import threading
    results: list[list[str]] = [[] for _ in chunks]

    def feed(i, p, ch):
        out, _ = p.communicate("\n".join(ch) + "\n", timeout=timeout)
        results[i] = out.splitlines()

    ths = [threading.Thread(target=feed, args=(i, p, ch)) for i, (p, ch) in enumerate(procs)]
    for t in ths:
        t.start()
    for t in ths:
        t.join()
    out = [""] * len(cases)
    for s, res in enumerate(results):
        idxs = list(range(s, len(cases), shards))
        if len(res) != len(idxs):
            res = res + ["(driver-died)"] * (len(idxs) - len(res))
        for i, r in zip(idxs, res):
            out[i] = r
    return out


# ---------------------------------------------------------------------------------------
# trees (Python side of the correspondence protocol)


def T(x) -> str:
    """Serialise ints / bools / bytes / str / lists / tuples / None to the s-expression format."""
    if x is None:
        return "()"
    if isinstance(x, bool):
        return "1" if x else "0"
    if isinstance(x, int):
        assert x >= 0, x
        return str(x)
    if isinstance(x, (bytes, bytearray)):
        return "(" + " ".join(str(b) for b in x) + ")"
    if isinstance(x, str):
        return "(" + " ".join(str(ord(c)) for c in x) + ")"
    if isinstance(x, (list, tuple)):
        return "(" + " ".join(T(y) for y in x) + ")"
    raise TypeError(type(x))


def parse_tree(s: str):
    """Parse an s-expression into nested Python lists of ints."""
    toks = s.replace("(", " ( ").replace(")", " ) ").split()
    pos = 0
    stack: list[list] = [[]]
    for t in toks:
        if t == "(":
            stack.append([])
        elif t == ")":
            l = stack.pop()
            stack[-1].append(l)
        else:
            stack[-1].append(int(t))
    assert len(stack) == 1 and len(stack[0]) == 1, s[:200]
    return stack[0][0]


ERR_CODES = {
    "struct.error": 1, "error": 1, "UnicodeDecodeError": 2, "UnicodeEncodeError": 2, "UnicodeError": 2,
    "IndexError": 3, "KeyError": 4, "ValueError": 5, "AssertionError": 6, "NotImplementedError": 7,
    "FileExistsError": 8, "FileNotFoundError": 9, "OSError": 10, "TypeError": 11, "AttributeError": 11,
    "OverflowError": 1,
}


def err_code(ex: BaseException) -> int:
    for cls in type(ex).__mro__:
        if cls.__name__ in ERR_CODES:
            return ERR_CODES[cls.__name__]
    return 97


def impl_result(f: Callable[[], Any]) -> Any:
    """Run an implementation call; returns [1, value] or [0, errcode]."""
    try:
        return [1, f()]
    except Exception as ex:  # noqa
        return [0, err_code(ex)]


# ---------------------------------------------------------------------------------------
# known findings


def load_known_findings(prop: str) -> tuple[list[dict], list[dict]]:
    """KNOWN_FINDINGS.txt lines:
       finding: property=C02 key=<key> :: text
       fixed: property=C01 <commit> text"""
    findings, fixed = [], []
    p = VERIF / "KNOWN_FINDINGS.txt"
    if not p.exists():
        return findings, fixed
    for line in p.read_text().splitlines():
        line = line.strip()
        if not line or line.startswith("#"):
            continue
        m = re.match(r"finding:\s+property=(\w+)\s+key=(\S+)\s*::\s*(.*)", line)
        if m and m.group(1) == prop:
            findings.append({"key": m.group(2), "text": m.group(3)})
        m = re.match(r"fixed:\s+property=(\w+)\s+(\S+)\s+(.*)", line)
        if m and m.group(1) == prop:
            fixed.append({"commit": m.group(2), "text": m.group(3)})
    return findings, fixed


# ---------------------------------------------------------------------------------------
# the per-run check object


class Check:
    def __init__(self, prop: str, tier: str, seed: int):
        self.prop = prop
        self.tier = tier
        self.seed = seed
        self.rng = random.Random(seed)
        self.t0 = time.time()
        self.obligations: list[dict] = []  # {"name", "ok", "detail"}
        self.corr: dict[str, dict] = {}  # stream -> counts
        self.samples: list[Any] = []
        self.violations: list[dict] = []  # {"what", "replay": dict, "found_input": bool}
        self.known_seen: list[str] = []
        self.notes: list[str] = []
        self.evaluations = 0
        self.distinct: set[str] = set()
        self.rule = ""
        self.exhaustive = False
        self.extra: dict[str, Any] = {}
        self.checker_cmds: list[str] = []
        self.broken: list[str] = []  # names of broken obligations / correspondences

    # -- obligations ----------------------------------------------------------------
    def oblige(self, name: str, ok: bool, detail: str = ""):
        self.obligations.append({"name": name, "ok": bool(ok), "detail": detail[-1500:]})
        if not ok:
            self.broken.append(name)

    def regen(self, gens: list[str]):
        st = regen(gens)
        for g, err in st.items():
            self.oblige(f"translate:{g}", err is None, err or "")
        return st

    def build(self, targets: list[str], timeout=1500) -> bool:
        ok, out = coq_make(targets, timeout=timeout)
        self.checker_cmds.append(f"cd {COQ} && make -j{NCPU} " + " ".join(targets))
        if not ok:
            self.oblige("coq-build:" + ",".join(targets), False, out)
            self.build_log = out
        return ok

    def check_props(self, vfile: str, timeout=900) -> bool:
        """Compile props/<id>.v afresh, require every theorem closed under the global context."""
        vo = (COQ / vfile).with_suffix(".vo")
        if vo.exists():
            vo.unlink()
        # everything the statement file imports must be rebuilt from the current sources first
        deps = []
        for m in re.finditer(r"From RC Require (?:Import|Export)\s+(.*?)\.\s*$", (COQ / vfile).read_text(), re.M | re.S):
            for mod in m.group(1).split():
                deps.append(mod.replace(".", "/") + ".vo")
        if deps:
            okd, outd = coq_make(deps, timeout=1500)
            if not okd:
                self.oblige("coq-build:" + ",".join(deps), False, outd)
        ok, out = coqc_capture(vfile, timeout=timeout)
        self.checker_cmds.append(f"cd {COQ} && coqc -Q . RC {vfile}")
        info = parse_props_output(vfile, out)
        self.extra.setdefault("theorems", []).extend(info["theorems"])
        if not ok:
            # find which theorem failed: coqc stops at the first error
            m = re.search(r'line (\d+)', out)
            failing = "?"
            if m:
                line = int(m.group(1))
                src = (COQ / vfile).read_text().splitlines()
                for i in range(min(line, len(src)) - 1, -1, -1):
                    mm = re.match(r"\s*Theorem\s+(\w+)", src[i])
                    if mm:
                        failing = mm.group(1)
                        break
            for th in info["theorems"]:
                self.oblige(f"theorem:{th}", False if th == failing else False,
                            ("FAILS: " if th == failing else "not checked (file stopped earlier): ") + out[-800:])
            return False
        missing = set(info["theorems"]) - set(info["printed"])
        for th in info["theorems"]:
            self.oblige(f"theorem:{th}", th not in missing, "no Print Assumptions" if th in missing else "")
        n_axiom = len(info["axiom_blocks"])
        self.oblige(f"assumptions:{vfile}", n_axiom == 0 and info["closed"] == len(info["printed"]),
                    "; ".join(info["axiom_blocks"]))
        bad = scan_forbidden()
        self.oblige("no-admit-no-axiom-scan", not bad, "; ".join(bad))
        return not missing and n_axiom == 0 and not bad

    # -- correspondence -------------------------------------------------------------
    def corr_count(self, stream: str, n: int, mismatches: int):
        c = self.corr.setdefault(stream, {"cases": 0, "mismatches": 0})
        c["cases"] += n
        c["mismatches"] += mismatches
        self.evaluations += n
        if mismatches:
            self.broken.append(f"correspondence:{stream}")

    def note_case(self, key: str):
        self.distinct.add(hashlib.sha1(key.encode()).hexdigest())

    def sample(self, s: Any, cap=6):
        if len(self.samples) < cap:
            self.samples.append(s)

    # -- violations -----------------------------------------------------------------
    def violation(self, what: str, replay: dict, found_input: bool):
        self.violations.append({"what": what, "replay": replay, "found_input": found_input})

    def known(self, text: str):
        self.known_seen.append(text)

    # -- finish ---------------------------------------------------------------------
    def finish(self) -> int:
        REPLAYS.mkdir(parents=True, exist_ok=True)
        EVID.mkdir(exist_ok=True)
        lines = []
        # broken obligations without a concrete failing input are violations too
        have_input = any(v["found_input"] for v in self.violations)
        if self.broken and not have_input:
            self.violation(
                "proof obligation / correspondence no longer checks: " + ", ".join(sorted(set(self.broken))),
                {"property": self.prop, "kind": "no-failing-input-found", "broken": sorted(set(self.broken)),
                 "details": [o for o in self.obligations if not o["ok"]],
                 "correspondence": self.corr},
                False,
            )
        for stale in REPLAYS.glob(f"{self.prop}-{self.tier}-{self.seed}-*.json"):
            stale.unlink()      # replay files of an earlier run of this very check are not this run's
        for i, v in enumerate(self.violations):
            path = REPLAYS / f"{self.prop}-{self.tier}-{self.seed}-{i}.json"
            rp = dict(v["replay"])
            rp.setdefault("property", self.prop)
            rp["what"] = v["what"]
            rp["broken_obligations"] = sorted(set(self.broken))
            path.write_text(json.dumps(rp, indent=1, default=str))
            tail = "" if v["found_input"] else " no-failing-input-found"
            lines.append(f"VIOLATION property={self.prop} replay={path}{tail}")
        for k in self.known_seen:
            print(f"KNOWN-FINDING: property={self.prop} {k}")
        n_ob = len(self.obligations)
        n_ok = sum(1 for o in self.obligations if o["ok"])
        ev = {
            "property_id": self.prop,
            "tier": self.tier,
            "seed": self.seed,
            "level": "proof",
            "coverage": {
                "obligations": max(n_ob, 1),
                "discharged": n_ok,
                "checker_cmd": " && ".join(dict.fromkeys(self.checker_cmds)) or "none",
                "trusted_base": TRUSTED_BASE,
                "obligation_list": [{"name": o["name"], "ok": o["ok"]} for o in self.obligations],
                "evaluations": self.evaluations,
                "distinct_nontrivial": len(self.distinct),
                "rule": self.rule,
                "samples": self.samples or ["(none)"],
                "exhaustive": self.exhaustive,
                "correspondence": self.corr,
                "known_findings_seen": self.known_seen,
                "notes": self.notes,
                **self.extra,
            },
            "assumptions": TRUSTED_BASE,
            "wall_s": round(time.time() - self.t0, 2),
            "violations": len(self.violations),
        }
        (EVID / f"{self.prop}.json").write_text(json.dumps(ev, indent=1, default=str))
        for l in lines:
            print(l)
        print(f"[{self.prop}] tier={self.tier} seed={self.seed} obligations={n_ok}/{n_ob} "
              f"evaluations={self.evaluations} violations={len(self.violations)} wall={ev['wall_s']}s")
        return 1 if self.violations else 0
