"""Predicates of the known findings for the unedited load/save cycle (C02, C03): given the bytes before and
after, say which RECORDED finding (and nothing else) explains a difference in one chunk.  Anything not explained
is a new violation.  The list of recorded keys lives in KNOWN_FINDINGS.txt; this file only defines the predicates."""
from __future__ import annotations

import scenarios as SC
import sections as S


def explain_chunk(name: bytes, old: bytes, new: bytes, all_old: dict):
    """key of the finding that fully explains old -> new for this chunk, or None"""
    if name == b"MRGN" and len(old) == 1280 and len(new) == 5100 and new[:1280] == old and not any(new[1280:]):
        return "mrgn-64-slots"
    if name == b"UPUS" and len(old) == 64 and len(new) == 64:
        up = all_old.get(b"UPRP")
        if up and len(up[-1]) == 1280:
            want = bytes(1 if any(up[-1][20 * i:20 * i + 20]) else 0 for i in range(64))
            if new == want:
                return "upus-recomputed"
    if name == b"SWNM" and len(old) == 1024 and len(new) == 1024 and all_old.get(b"STR "):
        strp = all_old[b"STR "][-1]
        ok = True
        for k in range(256):
            o, n_ = int.from_bytes(old[4 * k:4 * k + 4], "little"), int.from_bytes(new[4 * k:4 * k + 4], "little")
            if o != n_ and not (n_ == 0 and o != 0 and S.spec_resolve_string("STR ", strp, o) == b""):
                ok = False
        if ok:
            return "swnm-empty-name-zeroed"
    if name in (b"UNIS", b"UNIx") and len(old) == len(new):
        nw = 100 if name == b"UNIS" else 130
        base = len(old) - 4 * nw
        if old[:base] == new[:base]:
            carried = SC.carried_weapons()
            ok = True
            for arr in (0, 1):
                for w in range(nw):
                    o = base + arr * 2 * nw + 2 * w
                    if old[o:o + 2] != new[o:o + 2]:
                        if w in carried or new[o:o + 2] != b"\0\0":
                            ok = False
            if ok:
                return "orphan-weapons-zeroed"
    return None


def explain(before: bytes, after: bytes):
    """(set of finding keys, list of unexplained differences)"""
    ca, cb = SC.chunks_of(before), SC.chunks_of(after)
    by_name = {}
    for n, p in ca:
        by_name.setdefault(n, []).append(p)
    keys, unexplained = set(), []
    for i, ((n1, p1), (n2, p2)) in enumerate(zip(ca, cb)):
        if n1 != n2:
            unexplained.append(f"chunk {i}: name {n1!r} became {n2!r}")
        elif p1 != p2:
            k = explain_chunk(n1, p1, p2, by_name)
            if k:
                keys.add(k)
            else:
                j = next((x for x in range(min(len(p1), len(p2))) if p1[x] != p2[x]), min(len(p1), len(p2)))
                unexplained.append(f"chunk {i} {n1!r}: sizes {len(p1)}/{len(p2)}, first differing byte {j}")
    if len(cb) < len(ca):
        unexplained.append(f"{len(ca) - len(cb)} chunks disappeared")
    for n, p in cb[len(ca):]:
        # appended optional sections that say nothing (all zero) are not a difference StarCraft can read
        if n in (b"SWNM", b"UPRP", b"UPUS") and n not in by_name and not any(p):
            keys.add("empty-optional-section-appended")
        else:
            unexplained.append(f"chunk {n!r} appended with content")
    return keys, unexplained


def unchunk(chunks) -> bytes:
    return b"".join(n + len(p).to_bytes(4, "little") + p for n, p in chunks)


def with_uprp_slot(b: bytes, k: int, slot: bytes) -> bytes:
    """the map b with UPRP slot k (0-based) replaced by the 20 bytes given and UPUS[k] cleared"""
    out = []
    for n, p in SC.chunks_of(b):
        if n == b"UPRP" and len(p) == 1280:
            p = p[:20 * k] + slot + p[20 * k + 20:]
        if n == b"UPUS" and len(p) == 64:
            p = p[:k] + b"\0" + p[k + 1:]
        out.append((n, p))
    return unchunk(out)


# UPRP slots that are non-zero ONLY in what the rich unit-property model does not hold: owner byte, reserved bits
DROPPED_ONLY_SLOTS = {
    "owner byte": bytes([0, 0, 0, 0, 1] + [0] * 15),
    "reserved special-property bits": bytes([0x40, 0, 0, 0, 0] + [0] * 15),
    "reserved unit-property bits": bytes([0, 0, 0x80, 0, 0] + [0] * 15),
    "reserved flag bits": bytes([0] * 14 + [0x40, 0] + [0] * 4),
}


def explain_idempotence(first: bytes, second: bytes):
    """key of the recorded finding that fully explains why a second cycle differs from the first, or None"""
    ca, cb = SC.chunks_of(first), SC.chunks_of(second)
    if len(ca) != len(cb) or any(x[0] != y[0] for x, y in zip(ca, cb)):
        return None
    diff = [i for i, (x, y) in enumerate(zip(ca, cb)) if x[1] != y[1]]
    uprp = [p for n, p in ca if n == b"UPRP"]
    if diff and all(ca[i][0] == b"UPUS" for i in diff) and uprp and len(uprp[-1]) == 1280:
        for i in diff:
            a, b_ = ca[i][1], cb[i][1]
            if len(a) != 64 or len(b_) != 64:
                return None
            for k in range(64):
                if a[k] != b_[k] and not (a[k] == 1 and b_[k] == 0 and not any(uprp[-1][20 * k:20 * k + 20])):
                    return None
        return "uprp-slot-dropped-fields-only"
    return None
