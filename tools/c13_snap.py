"""Deep structural snapshots and the catalogue of public operations for C13."""
from __future__ import annotations

import dataclasses
import enum
import random
from decimal import Decimal

import scenarios as SC
import vlib

EXCLUDED_ATTRS = {"_sections_by_name", "_log", "log"}   # a functools.cached_property memo and loggers: caches, not state


def snap(o, depth=0, seen=None):
    """hashable structural image of o: dataclass fields, containers (with their ORDER for lists / dicts), scalars"""
    if depth > 60:
        return "<deep>"
    if o is None or isinstance(o, (bool, int, str, bytes, float, Decimal)):
        return o
    if isinstance(o, enum.Enum):
        return ("enum", type(o).__name__, o.name)
    if isinstance(o, (list, tuple)):
        return (type(o).__name__,) + tuple(snap(x, depth + 1) for x in o)
    if isinstance(o, (set, frozenset)):
        return ("set",) + tuple(sorted((repr(snap(x, depth + 1)) for x in o)))
    if isinstance(o, dict):
        return ("dict",) + tuple((repr(snap(k, depth + 1)), snap(v, depth + 1)) for k, v in o.items())
    if dataclasses.is_dataclass(o) and not isinstance(o, type):
        return (type(o).__name__,) + tuple((f.name, snap(getattr(o, f.name), depth + 1)) for f in dataclasses.fields(o)
                                           if f.name not in EXCLUDED_ATTRS)
    if hasattr(o, "__dict__"):
        return (type(o).__name__,) + tuple((k, snap(v, depth + 1)) for k, v in sorted(vars(o).items())
                                           if k not in EXCLUDED_ATTRS and not callable(v))
    return repr(o)


def container_ids(o, acc=None, depth=0):
    """ids of every list / dict / set / bytearray reachable from o"""
    acc = acc if acc is not None else {}
    if depth > 40 or o is None or isinstance(o, (bool, int, str, bytes, float, Decimal, enum.Enum, type)):
        return set(acc)
    if isinstance(o, (list, dict, set, bytearray)):
        if id(o) in acc:
            return set(acc)
        acc[id(o)] = type(o).__name__
    if isinstance(o, (list, tuple, set, frozenset)):
        for x in o:
            container_ids(x, acc, depth + 1)
    elif isinstance(o, dict):
        for k, v in o.items():
            container_ids(k, acc, depth + 1)
            container_ids(v, acc, depth + 1)
    elif dataclasses.is_dataclass(o) and not isinstance(o, type):
        for f in dataclasses.fields(o):
            if f.name not in EXCLUDED_ATTRS:
                container_ids(getattr(o, f.name), acc, depth + 1)
    return set(acc)


def shared_containers(a, b, exclude=frozenset()):
    ia, ib = {}, {}
    container_ids(a, ia)
    container_ids(b, ib)
    common = (set(ia) & set(ib)) - set(exclude)
    return sorted({ia[i] for i in common})


def first_difference(a, b, path="arg"):
    if type(a) != type(b):
        return f"{path}: {str(a)[:60]} -> {str(b)[:60]}"
    if isinstance(a, tuple):
        if len(a) != len(b):
            return f"{path}: length {len(a)} -> {len(b)}"
        for i, (x, y) in enumerate(zip(a, b)):
            if x != y:
                name = x[0] if isinstance(x, tuple) and len(x) == 2 and isinstance(x[0], str) else i
                return first_difference(x, y, f"{path}.{name}")
        return None
    return None if a == b else f"{path}: {str(a)[:60]} -> {str(b)[:60]}"


def sibling_settings(rng, nweapons):
    """unit settings for two different units that carry one weapon, with different damage values for it"""
    from decimal import Decimal
    from richchk.model.richchk.str.rich_string import RichNullString
    from richchk.model.richchk.unis.unit_id import UnitId
    from richchk.model.richchk.unis.unit_setting import UnitSetting
    from richchk.model.richchk.unis.unit_to_weapon_lookup import get_weapons_for_unit
    from richchk.model.richchk.unis.weapon_setting import WeaponSetting
    carriers = {}
    for u in UnitId:
        for w in get_weapons_for_unit(u):
            if w.id < nweapons:
                carriers.setdefault(w, []).append(u)
    w = rng.choice(sorted((w for w, us in carriers.items() if len(us) >= 2), key=lambda x: x.id))
    a, b = rng.sample(carriers[w], 2)

    def mk(u, dmg):
        return UnitSetting(_unit_id=u, _hitpoints=Decimal(40), _shieldpoints=1, _armorpoints=2, _build_time=3, _mineral_cost=4,
                           _gas_cost=5, _custom_unit_name=RichNullString(),
                           _weapons=[WeaponSetting(_weapon_id=x, _base_damage=dmg if x == w else 9, _upgrade_damage=dmg // 10 + 1)
                                     for x in get_weapons_for_unit(u) if x.id < nweapons],
                           _use_default_unit_settings=False)
    return mk(a, 20), mk(b, 35)


def catalogue(rng: random.Random):
    """[(name, callable taking a fresh argument tuple, argument factory)] — every public operation of the anchored files"""
    from richchk.editor.chk.decoded_str_section_editor import DecodedStrSectionEditor
    from richchk.editor.chk.decoded_strx_section_editor import DecodedStrxSectionEditor
    from richchk.editor.chk.decoded_strx_section_generator import DecodedStrxSectionGenerator
    from richchk.editor.richchk.rich_chk_editor import RichChkEditor
    from richchk.editor.richchk.rich_mrgn_editor import RichMrgnEditor
    from richchk.editor.richchk.rich_swnm_editor import RichSwnmEditor
    from richchk.editor.richchk.rich_trig_editor import RichTrigEditor
    from richchk.editor.richchk.rich_unis_editor import RichUnisEditor
    from richchk.editor.richchk.rich_unix_editor import RichUnixEditor
    from richchk.editor.richchk.rich_uprp_editor import RichUprpEditor
    from richchk.editor.richchk.rich_wav_editor import RichWavEditor
    from richchk.io.chk.chk_io import ChkIo
    from richchk.io.richchk.decoded_str_section_rebuilder import DecodedStrSectionRebuilder
    from richchk.io.richchk.lookups.mrgn.rich_mrgn_lookup_builder import RichMrgnLookupBuilder
    from richchk.io.richchk.lookups.mrgn.rich_mrgn_section_rebuilder import RichMrgnSectionRebuilder
    from richchk.io.richchk.lookups.swnm.rich_swnm_rebuilder import RichSwnmRebuilder
    from richchk.io.richchk.lookups.uprp.rich_cuwp_lookup_builder import RichCuwpLookupBuilder
    from richchk.io.richchk.lookups.uprp.rich_uprp_rebuilder import RichUprpRebuilder
    from richchk.io.richchk.lookups.upus.decoded_upus_rebuilder import DecodedUpusRebuilder
    from richchk.io.richchk.rich_str_lookup_builder import RichStrLookupBuilder
    from richchk.io.richchk.richchk_io import RichChkIo
    from richchk.model.chk.str.decoded_str_section import DecodedStrSection
    from richchk.model.chk.strx.decoded_strx_section import DecodedStrxSection
    from richchk.model.richchk.mrgn.rich_location import RichLocation
    from richchk.model.richchk.mrgn.rich_mrgn_section import RichMrgnSection
    from richchk.model.richchk.str.rich_string import RichNullString, RichString
    from richchk.model.richchk.swnm.rich_switch import RichSwitch
    from richchk.model.richchk.swnm.rich_swnm_section import RichSwnmSection
    from richchk.model.richchk.trig.rich_trig_section import RichTrigSection
    from richchk.model.richchk.unis.rich_unis_section import RichUnisSection
    from richchk.model.richchk.unix.rich_unix_section import RichUnixSection
    from richchk.model.richchk.uprp.rich_cuwp_slot import RichCuwpSlot
    from richchk.model.richchk.uprp.rich_uprp_section import RichUprpSection
    from richchk.model.richchk.wav.rich_wav_section import RichWavSection
    from richchk.util.dataclasses_util import build_dataclass_with_fields
    import authoring as A

    fixtures = [b for n, b in SC.fixtures() if "scx" in n]
    synth = SC.MapGen(random.Random(rng.randrange(10 ** 6)), "editor", nloc=255, all_sections=True).build()
    maps = fixtures + [synth]

    def pick_map():
        return rng.choice(maps)

    def decoded():
        return ChkIo().decode_chk_binary_data(pick_map())

    def rich():
        return RichChkIo().decode_chk(decoded())

    def edited_rich():
        base = pick_map()
        spec = A.gen_scenario(rng, base)
        b = A.Builder(spec)
        r = SC.load(base)
        for op in spec["ops"]:
            if op[0] != "save_reload":
                r = b.apply(r, op)
        return r

    def sec(r, cls):
        return next(s for s in r.chk_sections if isinstance(s, cls))

    def str_table(cls):
        n, offs, strs = 3, [0, 0, 0], ["alpha", "beta", "gamma"]
        w = 2 if cls is DecodedStrSection else 4
        base, pos = w + w * 3, 0
        offs = []
        for s in strs:
            offs.append(base + pos)
            pos += len(s) + 1
        return cls(_number_of_strings=3, _string_offsets=offs, _strings=strs)

    def new_locs():
        return [RichLocation(i, i, i + 5, i + 5, RichString(f"c13 loc {i}") if i % 2 else RichNullString()) for i in range(1, 4)]

    ops = [
        ("ChkIo.decode_chk_binary_data", lambda a: ChkIo().decode_chk_binary_data(*a), lambda: (pick_map(),)),
        ("ChkIo.encode_chk_to_bytes", lambda a: ChkIo().encode_chk_to_bytes(*a), lambda: (decoded(),)),
        ("RichChkIo.decode_chk", lambda a: RichChkIo().decode_chk(*a), lambda: (decoded(),)),
        ("RichChkIo.encode_chk", lambda a: RichChkIo().encode_chk(*a), lambda: (rich(),)),
        ("RichChkIo.encode_chk(edited)", lambda a: RichChkIo().encode_chk(*a), lambda: (edited_rich(),)),
        ("RichStrLookupBuilder.build_lookup", lambda a: RichStrLookupBuilder().build_lookup(*a), lambda: (str_table(DecodedStrSection),)),
        ("RichMrgnLookupBuilder.build_lookup", lambda a: RichMrgnLookupBuilder().build_lookup(*a), lambda: (sec(rich(), RichMrgnSection),)),
        ("RichCuwpLookupBuilder.build_lookup_from_rich_uprp", lambda a: RichCuwpLookupBuilder().build_lookup_from_rich_uprp(*a),
         lambda: (sec(rich(), RichUprpSection),)),
        ("DecodedStrSectionRebuilder.rebuild", lambda a: DecodedStrSectionRebuilder.rebuild_str_section_from_rich_chk(*a), lambda: (edited_rich(),)),
        ("RichMrgnSectionRebuilder.rebuild", lambda a: RichMrgnSectionRebuilder.rebuild_rich_mrgn_section_from_rich_chk(*a), lambda: (edited_rich(),)),
        ("RichSwnmRebuilder.rebuild", lambda a: RichSwnmRebuilder.rebuild_rich_swnm_from_rich_chk(*a), lambda: (edited_rich(),)),
        ("RichUprpRebuilder.rebuild", lambda a: RichUprpRebuilder.rebuild_rich_uprp_section_from_rich_chk(*a), lambda: (edited_rich(),)),
        ("DecodedUpusRebuilder.rebuild", lambda a: DecodedUpusRebuilder.rebuild_upus_from_rich_uprp(*a), lambda: (sec(rich(), RichUprpSection),)),
        ("RichChkEditor.replace_chk_section", lambda a: RichChkEditor().replace_chk_section(*a),
         lambda: (lambda r: (sec(r, RichTrigSection), r))(rich())),
        ("RichTrigEditor.add_triggers", lambda a: RichTrigEditor.add_triggers(*a),
         lambda: (lambda r: (list(sec(r, RichTrigSection).triggers[:2]), sec(r, RichTrigSection)))(rich())),
        ("RichMrgnEditor.add_locations", lambda a: RichMrgnEditor().add_locations(*a), lambda: (new_locs(), sec(rich(), RichMrgnSection))),
        # the request given as a SET (what the public rebuilders hand over) holding, next to new objects, objects that already
        # sit in the section: the caller's set must keep every member
        ("RichMrgnEditor.add_locations (a set holding existing locations)", lambda a: RichMrgnEditor().add_locations(*a),
         lambda: (lambda m: (set(new_locs()) | set(m.locations[:3]), m))(sec(rich(), RichMrgnSection))),
        ("RichUprpEditor.add_cuwp_slots (a set holding existing slots)", lambda a: RichUprpEditor().add_cuwp_slots(*a),
         lambda: (lambda u: ({RichCuwpSlot(10 + i, 20, 30) for i in range(3)} | set(u.cuwp_slots[:2]), u))(sec(rich(), RichUprpSection))),
        ("RichSwnmEditor.add_switches (a set holding existing switches)", lambda a: RichSwnmEditor().add_switches(*a),
         lambda: (lambda w: ({RichSwitch(RichString("c13 set sw"))} | set(w.switches[:2]), w))(
             RichSwnmSection(_switches=[RichSwitch(RichString("old a"), 5), RichSwitch(RichString("old b"), 6)]))),
        ("RichUprpEditor.add_cuwp_slots", lambda a: RichUprpEditor().add_cuwp_slots(*a),
         lambda: ([RichCuwpSlot(10 + i, 20, 30) for i in range(3)], sec(rich(), RichUprpSection))),
        ("RichWavEditor.add_wav_files", lambda a: RichWavEditor().add_wav_files(*a),
         lambda: (["staredit\\wav\\c13 a.wav", "staredit\\wav\\c13 b.wav"], sec(rich(), RichWavSection))),
        ("RichSwnmEditor.add_switches", lambda a: RichSwnmEditor().add_switches(*a),
         lambda: ([RichSwitch(RichString("c13 sw"))], RichSwnmSection(_switches=[RichSwitch(RichString("old"), 5)]))),
        ("RichUnisEditor.upsert_all_unit_settings", lambda a: RichUnisEditor().upsert_all_unit_settings(*a),
         lambda: (lambda u: (list(u.unit_settings[:2]) or [], u))(sec(rich(), RichUnisSection))),
        ("RichUnixEditor.upsert_all_unit_settings", lambda a: RichUnixEditor().upsert_all_unit_settings(*a),
         lambda: (lambda u: (list(u.unit_settings[:2]) or [], u))(sec(rich(), RichUnixSection))),
        # two units that carry ONE weapon (12 weapons are carried by 2-3 units), with different damage values for it: the
        # setting of the sibling already in the section, and both siblings in one request
        ("RichUnisEditor.upsert_unit_setting (sibling sharing a weapon)", lambda a: RichUnisEditor().upsert_unit_setting(*a),
         lambda: (lambda p: (p[0], RichUnisSection(_unit_settings=[p[1]])))(sibling_settings(rng, 100))),
        ("RichUnixEditor.upsert_unit_setting (sibling sharing a weapon)", lambda a: RichUnixEditor().upsert_unit_setting(*a),
         lambda: (lambda p: (p[0], RichUnixSection(_unit_settings=[p[1]])))(sibling_settings(rng, 130))),
        ("RichUnisEditor.upsert_all_unit_settings (siblings sharing a weapon)", lambda a: RichUnisEditor().upsert_all_unit_settings(*a),
         lambda: (lambda p: (list(p), RichUnisSection(_unit_settings=[])))(sibling_settings(rng, 100))),
        ("RichUnixEditor.upsert_all_unit_settings (siblings sharing a weapon)", lambda a: RichUnixEditor().upsert_all_unit_settings(*a),
         lambda: (lambda p: (list(p), RichUnixSection(_unit_settings=[])))(sibling_settings(rng, 130))),
        ("DecodedStrSectionEditor.add_strings", lambda a: DecodedStrSectionEditor().add_strings_to_str_section(*a),
         lambda: (["new one", "beta", "new one"], str_table(DecodedStrSection))),
        ("DecodedStrxSectionEditor.add_strings", lambda a: DecodedStrxSectionEditor().add_strings_to_strx_section(*a),
         lambda: (["new one", "beta"], str_table(DecodedStrxSection))),
        ("DecodedStrxSectionGenerator.generate", lambda a: DecodedStrxSectionGenerator().generate_strx_from_str(*a),
         lambda: (str_table(DecodedStrSection),)),
        ("build_dataclass_with_fields", lambda a: build_dataclass_with_fields(a[0], _index=7), lambda: (new_locs()[0],)),
    ]
    return ops
