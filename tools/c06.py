"""C06 — decoded sections expose the values at the spec's offsets."""
from __future__ import annotations

import json
import struct
from pathlib import Path

import c01
import sections as S
import vlib
from vlib import T

PROP = "C06"


def sentinel_payload(rng, size: int, mode: int) -> bytes:
    """every byte differs from its neighbours and from the byte one field-width away"""
    if mode == 0:
        return bytes(((i * 37) + (i >> 8) * 11 + 1) % 251 + 1 for i in range(size))
    if mode == 1:
        return bytes(((i * 101) ^ (i >> 3)) % 256 for i in range(size))
    if mode == 2:
        return bytes([0xFF]) * size
    return rng.randbytes(size)


def payload_sizes(name: str, rng):
    if name == "MRGN":
        return [0, 20, 20 * 64, 20 * 255, 20 * rng.randrange(1, 300)]
    if name == "TRIG":
        return [0, 2400, 4800, 2400 * rng.randrange(1, 5)]
    return [S.spec_size(S.SPEC_FULL[name])]


def scramble(o, depth=0):
    """mutate every list reachable from a decoded object in place (what a caller editing a decoded model does)"""
    import dataclasses
    if depth > 8:
        return
    if isinstance(o, list):
        for i, el in enumerate(o):
            if isinstance(el, bool):
                o[i] = not el
            elif isinstance(el, int):
                o[i] = el + 1
            elif isinstance(el, str):
                o[i] = el + "~"
            else:
                scramble(el, depth + 1)
        o.reverse()
    elif dataclasses.is_dataclass(o) and not isinstance(o, type):
        for f in dataclasses.fields(o):
            scramble(getattr(o, f.name), depth + 1)


def check_decode_is_fresh(name: str, payload: bytes):
    """histories: a decoded model edited by its owner must not show through in a later decode of the same bytes, nor
    in another record of the same section that happens to hold the same bytes"""
    from richchk.transcoder.chk.chk_section_transcoder_factory import ChkSectionTranscoderFactory
    from richchk.model.chk_section_name import ChkSectionName
    sp = S.SPEC_FULL[name]
    mk = lambda: ChkSectionTranscoderFactory.make_chk_section_transcoder(ChkSectionName.get_by_value(name))  # noqa
    try:
        first = mk().decode(payload)
        scramble(first)
        again = mk().decode(payload)
    except Exception as ex:  # noqa
        return f"decode raised {ex!r}"
    want, _ = S.spec_parse(sp, payload, 0)
    m = S.spec_mismatch(sp, want, again, name.strip())
    if m:
        return "a second decode of the same bytes, after the first result was edited in place: " + m
    rec = {"MRGN": 20, "TRIG": 2400}.get(name)
    if rec and len(payload) >= rec:
        twice = payload[:rec] * 2
        want2, _ = S.spec_parse(sp, twice, 0)
        try:
            obj = mk().decode(twice)
        except Exception as ex:  # noqa
            return f"decode raised {ex!r}"
        lst = next((getattr(obj, f.name) for f in __import__("dataclasses").fields(obj) if isinstance(getattr(obj, f.name), list)), None)
        if lst and len(lst) == 2:
            scramble(lst[0])
            keep = lst[1]
            lst_copy = [keep, keep]
            import copy
            probe = copy.copy(obj)
            object.__setattr__(probe, next(f.name for f in __import__("dataclasses").fields(obj) if isinstance(getattr(obj, f.name), list)), lst_copy)
            m = S.spec_mismatch(sp, want2, probe, name.strip())
            if m:
                return "two records holding the same bytes share one decoded object (editing record 0 changed record 1): " + m
    return None


def check_table_section(name: str, payload: bytes):
    """the property on the implementation: decode == spec read (by field name), encode(spec model) == payload"""
    from richchk.transcoder.chk.chk_section_transcoder_factory import ChkSectionTranscoderFactory
    from richchk.model.chk_section_name import ChkSectionName
    tr = ChkSectionTranscoderFactory.make_chk_section_transcoder(ChkSectionName.get_by_value(name))
    sp = S.SPEC_FULL[name]
    want, _ = S.spec_parse(sp, payload, 0)
    try:
        obj = tr.decode(payload)
    except Exception as ex:  # noqa
        return f"decode raised {ex!r}"
    m = S.spec_mismatch(sp, want, obj, name.strip())
    if m:
        return "decode: " + m
    try:
        out = tr.encode(S.spec_build(sp, want), include_header=False)
    except Exception as ex:  # noqa
        return f"encode raised {ex!r}"
    if out != payload:
        i = next((k for k in range(min(len(out), len(payload))) if out[k] != payload[k]), min(len(out), len(payload)))
        return f"encode: byte {i} differs (len {len(out)} vs {len(payload)})"
    return check_decode_is_fresh(name, payload)


def check_str_section(name: str, payload: bytes):
    from richchk.transcoder.chk.chk_section_transcoder_factory import ChkSectionTranscoderFactory
    from richchk.model.chk_section_name import ChkSectionName
    tr = ChkSectionTranscoderFactory.make_chk_section_transcoder(ChkSectionName.get_by_value(name))
    n, offs, strs = S.spec_read_str(name, payload)
    try:
        obj = tr.decode(payload)
    except Exception as ex:  # noqa
        return f"decode raised {ex!r}"
    if obj._number_of_strings != n:
        return f"number_of_strings {obj._number_of_strings} != spec {n}"
    if list(obj._string_offsets) != offs:
        return "string_offsets differ from the integers at w + w*i"
    if list(obj._strings) != strs:
        return "strings differ from the NUL-split of the data region"
    try:
        out = tr.encode(obj, include_header=False)
    except Exception as ex:  # noqa
        return f"encode raised {ex!r}"
    if out != payload:
        return "encode differs"
    return None


def run(ck: vlib.Check):
    ck.rule = ("sentinel payloads (position-dependent bytes so that every field differs from its neighbours, "
               "saturated, random) for every recognised section at every legal size, sparse record arrays, and trigger records carrying the EUD mask word; implementation decode compared "
               "BY FIELD NAME with an independent reader of the format description, implementation encode of the "
               "spec-built model compared with the payload, and implementation decode compared with the extracted "
               "model. Distinct = distinct payloads; all are non-trivial except the empty MRGN/TRIG.")
    built, props_ok, drv_ok = c01.common_build(ck, "props/C06.v", ["proofs/C06_proofs.vo"])
    rng = ck.rng
    reps = 2 if ck.tier == "quick" else 40
    cases = []
    for name in S.SPEC_FULL:
        for size in payload_sizes(name, rng):
            for mode in range(4):
                for _ in range(reps if mode == 3 else 1):
                    cases.append((name, sentinel_payload(rng, size, mode)))
    # sparse records: all-zero elements in front of, between and behind non-zero ones (a decoder that stops at the first
    # empty element, or pads with one shared object, reads the wrong thing from here on); every record-array section
    for name, rec, per in (("TRIG", 2400, None), ("MRGN", 20, None), ("UPRP", 20, 64)):
        n = per or 6
        base = bytearray(sentinel_payload(rng, rec * n, 0))
        for holes in ([0], [1], [0, 1, 2], [n - 2], list(range(0, n - 1)), [k for k in range(n) if k % 2 == 0]):
            b = bytearray(base)
            for h in holes:
                b[rec * h: rec * (h + 1)] = bytes(rec)
            cases.append((name, bytes(b)))
    # ... and inside one trigger: empty condition / action slots in front of and between used ones, only the last slot used
    for holes_c, holes_a in (([0], [0]), ([1, 2], [5]), (list(range(15)), list(range(63))), ([k for k in range(16) if k % 2], [k for k in range(64) if k % 3])):
        b = bytearray(sentinel_payload(rng, 2400, 1))
        for h in holes_c:
            b[20 * h: 20 * h + 20] = bytes(20)
        for h in holes_a:
            b[320 + 32 * h: 320 + 32 * h + 32] = bytes(32)
        cases.append(("TRIG", bytes(b)))
    # ... and the one value of a trigger field the format gives a meaning of its own: the mask word "SC" of a masked (EUD)
    # condition / action, next to every value of the flags byte and with the other fields as they come
    for mode in (0, 1, 2):
        for flags in (0xFF, 0x10, 0x16, 0x00):
            b = bytearray(sentinel_payload(rng, 2400, mode))
            for k in range(16):
                b[20 * k + 17] = flags if k % 2 == 0 else b[20 * k + 17]
                b[20 * k + 18: 20 * k + 20] = b"SC"
            for k in range(64):
                b[320 + 32 * k + 28] = flags if k % 2 == 0 else b[320 + 32 * k + 28]
                b[320 + 32 * k + 30: 320 + 32 * k + 32] = b"SC"
            cases.append(("TRIG", bytes(b)))
    for w, name in ((2, "STR "), (4, "STRx")):
        for _ in range(30 * reps):
            cases.append((name, S.gen_str_payload(rng, w)))
    done = 0
    for name, payload in cases:
        bad = check_str_section(name, payload) if name in ("STR ", "STRx") else check_table_section(name, payload)
        done += 1
        if payload:
            ck.note_case(name + payload.hex())
        if bad:
            ck.violation(f"{name!r}: {bad}", {"kind": "spec-offset", "section": name, "payload_hex": payload.hex(),
                                            "detail": bad}, True)
            break
    ck.evaluations += done
    ck.extra["cases_per_section"] = {n: sum(1 for c in cases if c[0] == n) for n in list(S.SPEC_FULL) + ["STR ", "STRx"]}
    if drv_ok:
        layouts = S.load_layouts()
        lines, exp = [], []
        for name, payload in cases:
            lines.append(f"(3 {T(name.encode())} {T(payload)})")
            from richchk.io.chk.chk_io import ChkIo
            exp.append(S.tree_text(vlib.impl_result(lambda: S.section_to_tree(
                ChkIo()._decode_chk_binary_data_to_chk_section(name, payload), layouts))))
        got = vlib.run_model("C01", lines)
        mism = [i for i, (g, e) in enumerate(zip(got, exp)) if g != e]
        ck.corr_count("section decode: impl vs extracted model", len(lines), len(mism))
        if mism:
            i = mism[0]
            ck.notes.append(f"first mismatch: section {cases[i][0]!r} payload {cases[i][1][:40].hex()}...")
        ck.sample({"section": cases[0][0], "payload_prefix_hex": cases[0][1][:24].hex(), "agrees": not mism})
        ck.sample({"section": cases[-1][0], "payload_hex": cases[-1][1][:60].hex()})


def replay(path: str) -> int:
    rp = json.loads(Path(path).read_text())
    print("replaying:", rp.get("what"))
    if "payload_hex" in rp:
        name, payload = rp["section"], bytes.fromhex(rp["payload_hex"])
        bad = check_str_section(name, payload) if name in ("STR ", "STRx") else check_table_section(name, payload)
        print("still failing: " + bad if bad else "no longer failing")
        return 1 if bad else 0
    print(json.dumps(rp, indent=1)[:3000])
    return 1
