(* Hand-written glue: reads one s-expression per line, converts it to the extracted
   [Model.tree], applies the extracted [Model.run : tree -> tree] and prints the result
   as an s-expression.  Numbers travel as OCaml ints (all protocol numbers are < 2^62). *)

let rec pos_of_int i =
  if i = 1 then Model.XH
  else if i land 1 = 1 then Model.XI (pos_of_int (i lsr 1))
  else Model.XO (pos_of_int (i lsr 1))

let n_of_int i = if i = 0 then Model.N0 else Model.Npos (pos_of_int i)

let rec int_of_pos = function
  | Model.XH -> 1
  | Model.XO p -> 2 * int_of_pos p
  | Model.XI p -> 2 * int_of_pos p + 1

let int_of_n = function Model.N0 -> 0 | Model.Npos p -> int_of_pos p

(* iterative parser: a stack of reversed partial lists *)
let parse (s : string) : Model.tree =
  let n = String.length s in
  let stack = ref [ [] ] in
  let i = ref 0 in
  while !i < n do
    let c = s.[!i] in
    if c = '(' then (stack := [] :: !stack; incr i)
    else if c = ')' then begin
      (match !stack with
       | top :: next :: rest -> stack := (Model.L (List.rev top) :: next) :: rest
       | _ -> failwith "unbalanced");
      incr i
    end
    else if c >= '0' && c <= '9' then begin
      let v = ref 0 in
      while !i < n && s.[!i] >= '0' && s.[!i] <= '9' do
        v := !v * 10 + (Char.code s.[!i] - 48);
        incr i
      done;
      (match !stack with
       | top :: rest -> stack := (Model.I (n_of_int !v) :: top) :: rest
       | [] -> failwith "empty stack")
    end
    else incr i
  done;
  match !stack with
  | [ [ t ] ] -> t
  | _ -> failwith "expected exactly one expression"

let print (b : Buffer.t) (t : Model.tree) : unit =
  (* explicit work list to stay stack-safe on long lists *)
  let work = ref [ `T t ] in
  let first = ref true in
  let sep () = if not !first then Buffer.add_char b ' '; first := false in
  while !work <> [] do
    match !work with
    | [] -> ()
    | `Close :: rest -> Buffer.add_char b ')'; first := false; work := rest
    | `T (Model.I n) :: rest -> sep (); Buffer.add_string b (string_of_int (int_of_n n)); work := rest
    | `T (Model.L l) :: rest ->
      sep (); Buffer.add_char b '('; first := true;
      work := List.rev_append (List.rev_map (fun x -> `T x) l) (`Close :: rest)
  done

let () =
  let b = Buffer.create 65536 in
  try
    while true do
      let line = input_line stdin in
      Buffer.clear b;
      (try print b (Model.run (parse line))
       with
       | Stack_overflow -> Buffer.clear b; Buffer.add_string b "(driver-stack-overflow)"
       | Failure m -> Buffer.clear b; Buffer.add_string b ("(driver-failure)"));
      print_string (Buffer.contents b);
      print_newline ()
    done
  with End_of_file -> ()
